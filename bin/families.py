"""Per-property check definitions (DESIGN.md section 7). Each entry of REGISTRY is fam(run, replay=None) -> exit code."""
import os, json, time
from vlib import *

REGISTRY = {}


def register(*props):
    def deco(f):
        for p in props:
            REGISTRY[p] = f
        return f
    return deco


def tla_set(xs):
    return '{' + ', '.join('"%s"' % x for x in xs) + '}'


# =====================================================================================================
# Access family: C03 (pair-verify machine + session switch) and C01 (gating layer)
# =====================================================================================================

ACCESS_FINISH = ["genuine", "wrongkey", "stale", "reordered", "replayed", "unknown", "self", "reflect", "badseal", "short", "badtlv"]
ACCESS_OPS = ["GetAcc", "GetChar", "PutVal", "PutSub", "Resource", "AddPair", "RemPair"]
ACCESS_NOISE = ["psstart", "pswrong", "pszero"]
ACCESS_GUARDS = ["session_installed_only_without_error", "signature_checked", "authenticate_checks_verified",
                 "authenticate_returns_after_refusal", "pairings_behind_auth", "resource_behind_auth"]
ACCESS_RULES = {"VerifiedRule": "C03", "ErrorRule": "C03", "PlainStaysPlain": "C03",
                "GateRule": "C01", "RefusalChangesNothing": "C01", "OnlyVerifiedGetEvents": "C01", "NoCarryOver": "C01"}


def access_cfg(evil, legit, finish, lens, ops, noise, weak=(), tail='', consts=''):
    return '''CONSTANTS
  EvilConn = %s
  LegitConn = %s
  FinishKinds = %s
  StartLens = %s
  Ops = %s
  Noise = %s
  MaxExch = 2
  Weak = %s
  %s
CHECK_DEADLOCK FALSE
%s
''' % (tla_set(evil), tla_set(legit), tla_set(finish), tla_set(lens), tla_set(ops), tla_set(noise), tla_set(weak), consts, tail)


def access_slices(prop):
    if prop == 'C03':
        return dict(finish=ACCESS_FINISH, lens=["ok", "short", "long", "empty"], ops=["GetAcc"], noise=[])
    return dict(finish=["genuine", "wrongkey", "self", "reflect"], lens=["ok"], ops=ACCESS_OPS, noise=ACCESS_NOISE)


def access_generate(run):
    sl = access_slices(run.prop)
    thorough = run.tier == 'thorough'
    groups = []
    # edge mode: one shortest word per (abstract state, incoming action) of the sliced model, one key-less connection
    edge = run.generate('AccessGen', cfgtext=access_cfg(["e1"], ["l1"], sl['finish'], sl['lens'], sl['ops'], sl['noise'],
                        tail='INIT GInit\nNEXT GNext\nINVARIANT EmitEdge\nVIEW EdgeView'), timeout=900)
    edge = dedupe_prefixes(edge)
    nedge = len(edge)
    if not thorough:
        edge = sample(edge, 2000, run.seed)
    # word mode: every word up to N over the slice
    n = 3 if (thorough or run.prop == 'C03') else 2
    evil = ["e1", "e2"] if thorough else ["e1"]
    words = run.generate('AccessGen', cfgtext=access_cfg(evil, ["l1"], sl['finish'], sl['lens'], sl['ops'], sl['noise'],
                         tail='INIT GInit\nNEXT GNext\nINVARIANT EmitWord\nCONSTRAINT WordBound', consts='MaxLen = %d' % n), timeout=1800)
    cap = 60000 if thorough else 6000
    nwords_all = len(words)
    words = sample(words, cap, run.seed)
    # attack words: shortest behaviours that break a property once a named guard is missing
    attacks = []
    for g in ACCESS_GUARDS:
        a = run.generate('AccessGen', cfgtext=access_cfg(["e1", "e2"], ["l1"], ACCESS_FINISH, ["ok", "short"], ACCESS_OPS, ["pszero"], weak=[g],
                         tail='INIT GInit\nNEXT GNext\nINVARIANT NoAttack\nVIEW AttackView'), expect_violation=True, timeout=600)
        if not a:
            raise ToolTrouble('no attack word for guard %s: the guard is vacuous in Access.tla' % g)
        attacks.append((g, a[0]))
    # simulation: long random words over two key-less connections and the full alphabet
    depth = 12 if thorough else 8
    num = 4000 if thorough else 300
    sim = run.generate('AccessGen', cfgtext=access_cfg(["e1", "e2"], ["l1"], ACCESS_FINISH, ["ok", "short", "long", "empty"], ACCESS_OPS, ACCESS_NOISE,
                       tail='INIT GInit\nNEXT GNext\nINVARIANT EmitSim', consts='SimLen = %d' % depth),
                       simulate='num=%d' % num, timeout=900, heap='2g', depth=depth + 1)
    groups.append(('edge', edge))
    groups.append(('word', words))
    for g, a in attacks:
        groups.append(('attack:' + g, [a]))
    groups.append(('sim', sim))
    stats = dict(edge_words=len(edge), edge_words_enumerated=nedge, words_enumerated=nwords_all, words_replayed=len(words), word_len=n,
                 attack_words=len(attacks), sim_words=len(sim), sim_depth=depth)
    return groups, stats


@register('C01', 'C03')
def access_family(run, replay=None):
    if replay:
        behs = [replay['behaviour']]
        bpath = os.path.join(run.dir, 'beh.ndjson')
        with open(bpath, 'w') as f:
            f.write(json.dumps(behs[0]) + '\n')
        stats = dict(replay=True)
    else:
        run.model_check('Access', 'Access_MC.cfg', workers=8)
        groups, stats = access_generate(run)
        bpath = os.path.join(run.dir, 'beh.ndjson')
        behs = write_behs(bpath, groups)
    run.build_harness()
    tpath = os.path.join(run.dir, 'trace.ndjson')
    out = run.harness('access', ['--beh', bpath, '--trace', tpath, '--seed', run.seed, '--tier', run.tier])
    log('  ' + out.strip().splitlines()[-1])
    viols, ok, _ = run.validate('AccessTrace', 'AccessTrace.cfg', tpath)
    lines = read_ndjson(tpath)

    def confirm(b, rule):
        p2 = os.path.join(run.dir, 'confirm.ndjson')
        t2 = os.path.join(run.dir, 'confirm-trace.ndjson')
        with open(p2, 'w') as f:
            f.write(json.dumps(b) + '\n')
        run.harness('access', ['--beh', p2, '--trace', t2, '--seed', run.seed, '--tier', run.tier])
        v2, _, _ = run.validate('AccessTrace', 'AccessTrace.cfg', t2)
        return any(v[0] == rule for v in v2)

    legit_served = sum(1 for x in lines if x.get('ev') == 'step' and x.get('c', '').startswith('l') and x.get('a') == 'Req'
                       and x.get('class') == 'Served' and x.get('enc'))
    legit_verified = sum(1 for x in lines if x.get('ev') == 'step' and x.get('a') == 'VFinish' and x.get('p') == 'genuine'
                         and x.get('http') == 200 and x.get('err') == 0)
    if not replay and (legit_verified == 0 or (run.prop == 'C01' and legit_served == 0)):
        raise ToolTrouble('vacuous run: the legitimate controller was never verified / served (verified=%d served=%d)' % (legit_verified, legit_served))
    nontrivial = len(set(canon_word(b['steps']) for b in behs if any(s.get('exp') not in ('HttpError', 'Refused', 'BadRequest', 'Any', 'none') for s in b['steps'])))
    cov = mc_summary(run)
    cov.update(stats)
    cov.update(dict(
        traces_validated_against_impl=len(behs),
        evaluations=sum(1 for x in lines if x.get('ev') in ('step', 'probe')),
        distinct_nontrivial=nontrivial,
        rule='behaviours are TLC-generated words over the %s slice of the Access.tla alphabet (edge mode: one shortest word per model transition; word mode: every word up to the stated length, sampled by seed when above the cap; attack words: shortest counterexamples of the model with one named guard removed; simulation). Distinct = canonical abstract word; non-trivial = at least one step whose expected reply is not an error/refusal.' % run.prop,
        samples=[dict(behaviour=b, observed=[x for x in lines if x.get('case') == b['id']][:8]) for b in behs[:2]] + [dict(behaviour=b) for b in behs[-2:]],
        legit_verified=legit_verified, legit_served_encrypted=legit_served,
        trace_lines=len(lines), rules=sorted(r for r, p in ACCESS_RULES.items() if p == run.prop),
    ))
    assumptions = ['the reference controller (harness/ref) implements HAP pair-verify and session framing correctly (cross-checked by the honest path agreeing with hc)',
                   'loopback TCP; a request unanswered for 2.5 s counts as not answered',
                   'abstract message classes are concretised by one seeded representative each']
    return finish(run, 'model_checking', ACCESS_RULES, behs, lines, viols, cov, assumptions, 'access', confirm=confirm)


# =====================================================================================================
# PairSetup family: C02
# =====================================================================================================

PS_ALL = dict(AVals=["good", "zero", "N", "missing", "replay"], Proofs=["right", "wrong", "missing"], Seals=["this", "other", "zero", "random"],
              Bodies=["genuine", "badsig", "mismatch", "badtlv"], Shapes=["ok", "tagflip", "ctflip", "short", "empty"])
PS_CORE = dict(AVals=["good", "zero", "replay"], Proofs=["right", "wrong"], Seals=["this", "zero", "other"],
               Bodies=["genuine", "badsig"], Shapes=["ok", "tagflip", "short"])
PS_GUARDS = ["verify_bad_A_resets", "step_checked_before_kex", "signature_checked", "aead_checked"]


def ps_cfg(conn, ident, sl, weak=(), tail='', consts=''):
    return '''CONSTANTS
  Conn = %s
  Ident = %s
  MaxAtt = 2
  Weak = %s
  AVals = %s
  Proofs = %s
  Seals = %s
  Bodies = %s
  Shapes = %s
  %s
CHECK_DEADLOCK FALSE
%s
''' % (tla_set(conn), tla_set(ident), tla_set(weak), tla_set(sl['AVals']), tla_set(sl['Proofs']), tla_set(sl['Seals']),
       tla_set(sl['Bodies']), tla_set(sl['Shapes']), consts, tail)


def pick_one_per_prefix(sim, seed):
    pick = {}
    for wd in sim:
        pick.setdefault(json.dumps(wd[:-1], sort_keys=True), []).append(wd)
    return [sample(v, 1, seed)[0] for k, v in sorted(pick.items())]


@register('C02')
def pairsetup_family(run, replay=None):
    thorough = run.tier == 'thorough'
    gen_tail = 'INIT GInit\nNEXT GNext\n'
    if replay:
        behs = [replay['behaviour']]
        bpath = os.path.join(run.dir, 'beh.ndjson')
        with open(bpath, 'w') as f:
            f.write(json.dumps(behs[0]) + '\n')
        stats = dict(replay=True)
    else:
        run.model_check('PairSetup', 'PairSetup_MC.cfg', workers=8)
        edge = dedupe_prefixes(run.generate('PairSetupGen', cfgtext=ps_cfg(["c1"], ["a"], PS_ALL, tail=gen_tail + 'INVARIANT EmitEdge\nVIEW EdgeView')))
        edge2 = dedupe_prefixes(run.generate('PairSetupGen', cfgtext=ps_cfg(["c1", "c2"], ["a", "b"], PS_CORE, tail=gen_tail + 'INVARIANT EmitEdge\nVIEW EdgeView')))
        nedge2 = len(edge2)
        if not thorough:
            edge2 = sample(edge2, 4000, run.seed)
        n = 3
        words = run.generate('PairSetupGen', cfgtext=ps_cfg(["c1"], ["a"], PS_ALL if thorough else PS_CORE, consts='MaxLen = %d' % n,
                                                             tail=gen_tail + 'INVARIANT EmitWord\nCONSTRAINT WordBound'), timeout=1800)
        nall = len(words)
        words = sample(words, 40000 if thorough else 3000, run.seed)
        words4 = []
        if thorough:
            words4 = run.generate('PairSetupGen', cfgtext=ps_cfg(["c1"], ["a"], PS_CORE, consts='MaxLen = 4',
                                                                  tail=gen_tail + 'INVARIANT EmitWord\nCONSTRAINT WordBound'), timeout=1800)
            nall += len(words4)
            words4 = sample(words4, 30000, run.seed + 1)
        attacks = []
        for g in PS_GUARDS:
            a = run.generate('PairSetupGen', cfgtext=ps_cfg(["c1", "c2"], ["a", "b"], PS_ALL, weak=[g], tail=gen_tail + 'INVARIANT NoAttack\nVIEW AttackView'), expect_violation=True)
            if not a:
                raise ToolTrouble('no attack word for guard %s' % g)
            attacks.append((g, a[0]))
        depth = 10 if thorough else 7
        sim = run.generate('PairSetupGen', cfgtext=ps_cfg(["c1", "c2"], ["a", "b"], PS_ALL, consts='SimLen = %d' % depth, tail=gen_tail + 'INVARIANT EmitSim'),
                           simulate='num=%d' % (8000 if thorough else 300), heap='2g', timeout=900, depth=depth + 1)
        groups = [('edge', edge), ('edge2', edge2), ('word', words), ('word4', words4)] + [('attack:' + g, [a]) for g, a in attacks] + [('sim', sim)]
        bpath = os.path.join(run.dir, 'beh.ndjson')
        behs = write_behs(bpath, groups)
        stats = dict(edge_words=len(edge) + len(edge2), edge_words_two_connections_enumerated=nedge2, words_enumerated=nall, words_replayed=len(words) + len(words4), attack_words=len(attacks), sim_words=len(sim), sim_depth=depth)
    run.build_harness()
    tpath = os.path.join(run.dir, 'trace.ndjson')
    out = run.harness('pairsetup', ['--beh', bpath, '--trace', tpath, '--seed', run.seed, '--tier', run.tier])
    log('  ' + out.strip().splitlines()[-1])
    viols, ok, _ = run.validate('PairSetupTrace', 'PairSetupTrace.cfg', tpath)
    lines = read_ndjson(tpath)

    def confirm(b, rule):
        p2 = os.path.join(run.dir, 'confirm.ndjson')
        t2 = os.path.join(run.dir, 'confirm-trace.ndjson')
        with open(p2, 'w') as f:
            f.write(json.dumps(b) + '\n')
        run.harness('pairsetup', ['--beh', p2, '--trace', t2, '--seed', run.seed, '--tier', run.tier])
        v2, _, _ = run.validate('PairSetupTrace', 'PairSetupTrace.cfg', t2)
        return any(v[0] == rule for v in v2)

    honest = sum(1 for x in lines if x.get('ev') == 'msg' and x['m'].get('t') == 'Kex' and x.get('state') == 6 and x.get('err') == 0 and x.get('m6ok'))
    proofs = sum(1 for x in lines if x.get('holds'))
    if not replay and (honest == 0 or proofs == 0):
        raise ToolTrouble('vacuous run: no honest pairing completed (proofs=%d, pairings=%d)' % (proofs, honest))
    drift = sum(1 for x in lines if x.get('ev') == 'msg' and x.get('skipped'))
    cov = mc_summary(run)
    cov.update(stats)
    cov.update(dict(
        traces_validated_against_impl=len(behs),
        evaluations=sum(1 for x in lines if x.get('ev') == 'msg'),
        distinct_nontrivial=len(set(canon_word(b['steps']) for b in behs if any(s.get('exp') in ('M4proof', 'M6ok') for s in b['steps']))),
        rule='TLC-generated words over the pair-setup message alphabet of PairSetup.tla (edge mode one word per model transition, word mode all words up to the stated length sampled above the cap, attack words per named guard, simulation over two connections); distinct = canonical abstract word, non-trivial = contains an accepted proof or a stored pairing in the design spec',
        samples=[dict(behaviour=b, observed=[x for x in lines if x.get('case') == b['id']][:6]) for b in behs[:1]] + [dict(behaviour=b) for b in behs[-2:]],
        honest_pairings_completed=honest, accepted_proofs=proofs, steps_skipped_drift=drift, trace_lines=len(lines), rules=['StoreRule', 'ProofOnlyForRightProof'],
    ))
    assumptions = ['the reference controller implements SRP-6a / HKDF / ChaCha20-Poly1305 / Ed25519 as in the HAP specification (it completes honest pairings with hc in this very run)',
                   'one seeded concretisation (setup code, controller identifier, key pair, flipped bit) per abstract word']
    return finish(run, 'model_checking', {}, behs, lines, viols, cov, assumptions, 'pairsetup', confirm=confirm)


# =====================================================================================================
# Notify family: C10
# =====================================================================================================

NT_GUARDS = ["skip_originator", "only_subscribed", "unsubscribe_clears", "session_removed_on_close", "no_event_on_same_value",
             "subscribe_requires_ev_perm", "notified_once", "write_tolerates_vanished_session"]


def nt_cfg(conn, chars, weak=(), tail='', consts=''):
    return '''CONSTANTS
  Conn = %s
  Char = %s
  Evented = {"x", "y"}
  Weak = %s
  %s
CHECK_DEADLOCK FALSE
%s
''' % (tla_set(conn), tla_set(chars), tla_set(weak), consts, tail)


def generic_family(run, replay, *, hcv, trace_mod, gen, rules, level, assumptions, rule_text, nontrivial, sanity=None, extra_cov=None, fpfun=None):
    """Common pipeline: model check + generate (callback) -> harness -> trace validation -> verdict."""
    bpath = os.path.join(run.dir, 'beh.ndjson')
    if replay:
        behs = [replay['behaviour']]
        with open(bpath, 'w') as f:
            f.write(json.dumps(behs[0]) + '\n')
        stats = dict(replay=True)
    else:
        groups, stats = gen(run)
        behs = write_behs(bpath, groups)
    run.build_harness()
    tpath = os.path.join(run.dir, 'trace.ndjson')
    out = run.harness(hcv, ['--beh', bpath, '--trace', tpath, '--seed', run.seed, '--tier', run.tier])
    log('  ' + out.strip().splitlines()[-1][:300])
    viols, ok, _ = run.validate(trace_mod, trace_mod + '.cfg', tpath)
    lines = read_ndjson(tpath)

    def confirm(b, rule):
        p2 = os.path.join(run.dir, 'confirm.ndjson')
        t2 = os.path.join(run.dir, 'confirm-trace.ndjson')
        with open(p2, 'w') as f:
            f.write(json.dumps(b) + '\n')
        for attempt in range(3):      # schedule-dependent findings may need more than one execution
            run.harness(hcv, ['--beh', p2, '--trace', t2, '--seed', run.seed + attempt, '--tier', run.tier])
            v2, _, _ = run.validate(trace_mod, trace_mod + '.cfg', t2)
            if any(v[0] == rule for v in v2):
                return True
        return False

    if sanity and not replay:
        sanity(lines, behs)
    cov = mc_summary(run)
    cov.update(stats)
    cov.update(dict(
        traces_validated_against_impl=len(behs),
        evaluations=sum(1 for x in lines if x.get('ev') not in ('reset',)),
        distinct_nontrivial=len(set(canon_word(b['steps']) for b in behs if nontrivial(b))),
        rule=rule_text,
        samples=[dict(behaviour=b, observed=[x for x in lines if x.get('case') == b['id']][:6]) for b in behs[:1]] + [dict(behaviour=b) for b in behs[-2:]],
        trace_lines=len(lines), rules=sorted(r for r, p in rules.items() if p == run.prop),
    ))
    if extra_cov:
        cov.update(extra_cov(lines, behs))
    return finish(run, level, rules, behs, lines, viols, cov, assumptions, hcv, confirm=confirm, fpfun=fpfun)


def notify_gen(run):
    thorough = run.tier == 'thorough'
    run.model_check('Notify', 'Notify_MC.cfg', workers=8)
    t = 'INIT HInit\nNEXT HNext\n'
    edge = dedupe_prefixes(run.generate('NotifyGen', cfgtext=nt_cfg(["c1", "c2", "c3"], ["x", "y", "z"], tail=t + 'INVARIANT EmitEdge\nVIEW EdgeView'), timeout=1200))
    nedge = len(edge)
    if not thorough:
        edge = sample(edge, 2500, run.seed)
    n = 4 if thorough else 3
    words = run.generate('NotifyGen', cfgtext=nt_cfg(["c1", "c2"], ["x", "z"], consts='MaxLen = %d' % n, tail=t + 'INVARIANT EmitWord\nCONSTRAINT WordBound'), timeout=1800)
    nall = len(words)
    words = sample(words, 30000 if thorough else 1500, run.seed)
    attacks = []
    for g in NT_GUARDS:
        a = run.generate('NotifyGen', cfgtext=nt_cfg(["c1", "c2", "c3"], ["x", "y", "z"], weak=[g], tail=t + 'INVARIANT NoAttack\nVIEW AttackView'), expect_violation=True)
        if not a:
            raise ToolTrouble('no attack word for guard %s' % g)
        attacks.append((g, a[0]))
    depth = 14 if thorough else 10
    sim = run.generate('NotifyGen', cfgtext=nt_cfg(["c1", "c2", "c3"], ["x", "y", "z"], consts='SimLen = %d' % depth, tail=t + 'INVARIANT EmitSim'),
                       simulate='num=%d' % (20000 if thorough else 400), heap='2g', timeout=1200, depth=depth + 1)
    groups = [('edge', edge), ('word', words)] + [('attack:' + g, [a]) for g, a in attacks] + [('sim', sim)]
    return groups, dict(edge_words=len(edge), edge_words_enumerated=nedge, words_enumerated=nall, words_replayed=len(words), word_len=n,
                        attack_words=len(attacks), sim_words=len(sim), sim_depth=depth)


@register('C10')
def notify_family(run, replay=None):
    def sanity(lines, behs):
        ev = sum(len(x.get('got', [])) for x in lines if x.get('ev') == 'act')
        if ev == 0:
            raise ToolTrouble('vacuous run: no EVENT was ever observed')

    def extra(lines, behs):
        return dict(events_observed=sum(len(x.get('got', [])) for x in lines if x.get('ev') == 'act'),
                    racing_close_steps=sum(1 for x in lines if x.get('a') == 'LocalRace' and not x.get('skipped')),
                    steps_skipped_drift=sum(1 for x in lines if x.get('skipped')))
    return generic_family(run, replay, hcv='notify', trace_mod='NotifyTrace', gen=notify_gen,
                          rules={'ExactlyOnce': 'C10', 'NoAppPanic': 'C10', 'FenceAnswered': 'C10'}, level='model_checking',
                          assumptions=['three reference controllers with pre-seeded pairings, real pair-verify, encrypted sessions over loopback TCP',
                                       'EVENTs are attributed to an action by fencing every open connection with its own request/response after the action (events are written synchronously by hc before the causing call returns)',
                                       'a closed connection cannot be observed receiving anything: observed white-box as "the context holds no session for it" and black-box as "a reconnect starts without subscriptions"',
                                       'ProgrammableSwitchEvent (event per press by contract) is outside the same-value alphabet'],
                          rule_text='TLC-generated histories of connect / close / subscribe / unsubscribe / local set / remote write / local set racing a close over 3 connections and 3 characteristics on 2 accessories (edge mode, words, attack words per named guard, simulation); distinct = canonical abstract word; non-trivial = the design spec expects at least one EVENT in it',
                          nontrivial=lambda b: any(sum(s.get('exp', {}).values()) > 0 for s in b['steps']),
                          sanity=sanity, extra_cov=extra)
