"""Per-property check definitions (DESIGN.md section 7). Each entry of REGISTRY is fam(run, replay=None) -> exit code."""
import os, shutil, json, time
from vlib import *

REGISTRY = {}


def register(*props):
    def deco(f):
        for p in props:
            REGISTRY[p] = f
        return f
    return deco


def tla_set(xs):
    return '{' + ', '.join('"%s"' % x for x in xs) + '}'


# =====================================================================================================
# Access family: C03 (pair-verify machine + session switch) and C01 (gating layer)
# =====================================================================================================

ACCESS_FINISH = ["genuine", "genuine_inject", "wrongkey", "stale", "reordered", "replayed", "unknown", "self", "selfkey", "replayown", "reflect", "crossname", "badseal", "short", "badtlv"]
ACCESS_OPS = ["GetAcc", "GetChar", "PutVal", "PutSub", "Resource", "AddPair", "RemPair"]
ACCESS_NOISE = ["psstart", "pswrong", "pszero"]
ACCESS_GUARDS = ["one_request_at_a_time_before_the_session", "accessory_key_fresh_per_exchange", "accessory_is_not_a_controller", "rejected_start_keeps_waiting", "key_looked_up_per_finish", "session_installed_only_without_error", "signature_checked", "authenticate_checks_verified",
                 "authenticate_returns_after_refusal", "pairings_behind_auth", "resource_behind_auth"]
ACCESS_RULES = {"VerifiedRule": "C03", "ErrorRule": "C03", "PlainStaysPlain": "C03",
                "GateRule": "C01", "NoPlainInSession": "C01", "RefusalChangesNothing": "C01", "OnlyVerifiedGetEvents": "C01", "NoCarryOver": "C01"}


def access_cfg(evil, legit, finish, lens, ops, noise, weak=(), tail='', consts=''):
    return '''CONSTANTS
  EvilConn = %s
  LegitConn = %s
  FinishKinds = %s
  StartLens = %s
  Ops = %s
  Noise = %s
  MaxExch = 2
  Weak = %s
  %s
CHECK_DEADLOCK FALSE
%s
''' % (tla_set(evil), tla_set(legit), tla_set(finish), tla_set(lens), tla_set(ops), tla_set(noise), tla_set(weak), consts, tail)


def access_slices(prop):
    if prop == 'C03':
        return dict(finish=ACCESS_FINISH, lens=["ok", "sameA", "short", "long", "empty"], ops=["GetAcc"], noise=[])
    return dict(finish=["genuine", "genuine_inject", "wrongkey", "self", "selfkey", "reflect", "crossname"], lens=["ok"], ops=ACCESS_OPS, noise=ACCESS_NOISE)


def access_generate(run):
    sl = access_slices(run.prop)
    thorough = run.tier == 'thorough'
    groups = []
    # edge mode: one shortest word per (abstract state, incoming action) of the sliced model, one key-less connection
    edge = run.generate('AccessGen', cfgtext=access_cfg(["e1"], ["l1"], sl['finish'], sl['lens'], sl['ops'], sl['noise'],
                        tail='INIT GInit\nNEXT GNext\nINVARIANT EmitEdge\nVIEW EdgeView'), timeout=900)
    edge = dedupe_prefixes(edge)
    nedge = len(edge)
    if not thorough:
        edge = sample(edge, 2000, run.seed)
    # word mode: every word up to N over the slice
    n = 3 if (thorough or run.prop == 'C03') else 2
    evil = ["e1", "e2"] if thorough else ["e1"]
    words = run.generate('AccessGen', cfgtext=access_cfg(evil, ["l1"], sl['finish'], sl['lens'], sl['ops'], sl['noise'],
                         tail='INIT GInit\nNEXT GNext\nINVARIANT EmitWord\nCONSTRAINT WordBound', consts='MaxLen = %d' % n), timeout=1800)
    cap = 60000 if thorough else 6000
    nwords_all = len(words)
    words = sample(words, cap, run.seed)
    # attack words: shortest behaviours that break a property once a named guard is missing
    attacks = []
    for g in ACCESS_GUARDS:
        a = run.generate('AccessGen', cfgtext=access_cfg(["e1", "e2"], ["l1"], ACCESS_FINISH, ["ok", "sameA", "short"], ACCESS_OPS, ["pszero"], weak=[g],
                         tail='INIT GInit\nNEXT GNext\nINVARIANT NoAttack\nVIEW AttackView'), expect_violation=True, timeout=600)
        if not a:
            raise ToolTrouble('no attack word for guard %s: the guard is vacuous in Access.tla' % g)
        attacks.append((g, a[0]))
    # simulation: long random words over two key-less connections and the full alphabet
    depth = 12 if thorough else 8
    num = 4000 if thorough else 300
    sim = run.generate('AccessGen', cfgtext=access_cfg(["e1", "e2"], ["l1"], ACCESS_FINISH, ["ok", "sameA", "short", "long", "empty"], ACCESS_OPS, ACCESS_NOISE,
                       tail='INIT GInit\nNEXT GNext\nINVARIANT EmitSim', consts='SimLen = %d' % depth),
                       simulate='num=%d' % num, timeout=900, heap='2g', depth=depth + 1)
    groups.append(('edge', edge))
    groups.append(('word', words))
    for g, a in attacks:
        groups.append(('attack:' + g, [a]))
    groups.append(('sim', sim))
    stats = dict(edge_words=len(edge), edge_words_enumerated=nedge, words_enumerated=nwords_all, words_replayed=len(words), word_len=n,
                 attack_words=len(attacks), sim_words=len(sim), sim_depth=depth)
    return groups, stats


@register('C01', 'C03')
def access_family(run, replay=None):
    if replay and replay.get('context') == 'batch' and replay.get('batch_file') and os.path.exists(replay['batch_file']):
        bpath = os.path.join(run.dir, 'beh.ndjson')
        shutil.copyfile(replay['batch_file'], bpath)
        behs = read_ndjson(bpath)
        stats = dict(replay=True, batch=True)
    elif replay:
        behs = [replay['behaviour']]
        bpath = os.path.join(run.dir, 'beh.ndjson')
        with open(bpath, 'w') as f:
            f.write(json.dumps(behs[0]) + '\n')
        stats = dict(replay=True)
    else:
        run.model_check('Access', 'Access_MC.cfg', workers=8)
        groups, stats = access_generate(run)
        bpath = os.path.join(run.dir, 'beh.ndjson')
        behs = write_behs(bpath, groups)
    run.build_harness()
    tpath = os.path.join(run.dir, 'trace.ndjson')
    out = run.harness('access', ['--beh', bpath, '--trace', tpath, '--seed', run.seed, '--tier', run.tier])
    log('  ' + out.strip().splitlines()[-1])
    viols, ok, _ = run.validate('AccessTrace', 'AccessTrace.cfg', tpath)
    lines = read_ndjson(tpath)

    def confirm(b, rule):
        p2 = os.path.join(run.dir, 'confirm.ndjson')
        t2 = os.path.join(run.dir, 'confirm-trace.ndjson')
        with open(p2, 'w') as f:
            f.write(json.dumps(b) + '\n')
        run.harness('access', ['--beh', p2, '--trace', t2, '--seed', run.seed, '--tier', run.tier])
        v2, _, _ = run.validate('AccessTrace', 'AccessTrace.cfg', t2)
        return any(v[0] == rule for v in v2)

    def confirm_batch():
        t3 = os.path.join(run.dir, 'batch-trace.ndjson')
        run.harness('access', ['--beh', bpath, '--trace', t3, '--seed', run.seed, '--tier', run.tier])
        v3, _, _ = run.validate('AccessTrace', 'AccessTrace.cfg', t3)
        return v3, read_ndjson(t3)

    legit_served = sum(1 for x in lines if x.get('ev') == 'step' and x.get('c', '').startswith('l') and x.get('a') == 'Req'
                       and x.get('class') == 'Served' and x.get('enc'))
    legit_verified = sum(1 for x in lines if x.get('ev') == 'step' and x.get('a') == 'VFinish' and x.get('p') == 'genuine'
                         and x.get('http') == 200 and x.get('err') == 0)
    vacuous = not replay and (legit_verified == 0 or (run.prop == 'C01' and legit_served == 0))
    nontrivial = len(set(canon_word(b['steps']) for b in behs if any(s.get('exp') not in ('HttpError', 'Refused', 'BadRequest', 'Any', 'none') for s in b['steps'])))
    cov = mc_summary(run)
    cov.update(stats)
    import collections
    inj = collections.Counter('%s: finish %s, appended request %s' % (x.get('reframed'), 'accepted' if (x.get('http') == 200 and x.get('err') == 0) else 'refused',
                              'SERVED' if x.get('injserved') else 'not served') for x in lines if x.get('ev') == 'step' and x.get('p') == 'genuine_inject')
    cov['requests_appended_to_a_genuine_finish'] = dict(inj)
    if not replay and run.tier == 'thorough':
        cov['binding_selftest'] = binding_selftest(run, 'AccessTrace', lines, viols, CORRUPTIONS['access'])
    cov.update(dict(
        traces_validated_against_impl=len(behs),
        evaluations=sum(1 for x in lines if x.get('ev') in ('step', 'probe')),
        distinct_nontrivial=nontrivial,
        rule='behaviours are TLC-generated words over the %s slice of the Access.tla alphabet (edge mode: one shortest word per model transition; word mode: every word up to the stated length, sampled by seed when above the cap; attack words: shortest counterexamples of the model with one named guard removed; simulation). Distinct = canonical abstract word; non-trivial = at least one step whose expected reply is not an error/refusal.' % run.prop,
        samples=[dict(behaviour=b, observed=[x for x in lines if x.get('case') == b['id']][:8]) for b in behs[:2]] + [dict(behaviour=b) for b in behs[-2:]],
        legit_verified=legit_verified, legit_served_encrypted=legit_served,
        trace_lines=len(lines), rules=sorted(r for r, p in ACCESS_RULES.items() if p == run.prop),
    ))
    assumptions = ['the reference controller (harness/ref) implements HAP pair-verify and session framing correctly (cross-checked by the honest path agreeing with hc)',
                   'loopback TCP; a request unanswered for 2.5 s counts as not answered',
                   'abstract message classes are concretised by one seeded representative each']
    rc = finish(run, 'model_checking', ACCESS_RULES, behs, lines, viols, cov, assumptions, 'access', confirm=confirm, confirm_batch=confirm_batch, batch_file=bpath)
    if rc == 0 and vacuous:
        raise ToolTrouble('vacuous run: the legitimate controller was never verified / served (verified=%d served=%d)' % (legit_verified, legit_served))
    return rc


# =====================================================================================================
# PairSetup family: C02
# =====================================================================================================

PS_ALL = dict(AVals=["good", "zero", "N", "missing", "replay", "replay_same"], Proofs=["right", "wrong", "missing", "nilkey"], Seals=["this", "other", "zero", "random", "nilkey", "recorded"],
              Bodies=["genuine", "badsig", "mismatch", "badtlv", "smallorder"], Shapes=["ok", "tagflip", "ctflip", "short", "empty"])
PS_CORE = dict(AVals=["good", "zero", "replay"], Proofs=["right", "wrong"], Seals=["this", "zero", "other"],
               Bodies=["genuine", "badsig"], Shapes=["ok", "tagflip", "short"])
PS_GUARDS = ["session_fresh_after_reset", "wrong_proof_resets", "bad_A_stops_exchange", "verify_bad_A_resets", "step_checked_before_kex", "signature_checked", "aead_checked"]


def ps_cfg(conn, ident, sl, weak=(), tail='', consts=''):
    return '''CONSTANTS
  Conn = %s
  Ident = %s
  MaxAtt = 2
  Weak = %s
  AVals = %s
  Proofs = %s
  Seals = %s
  Bodies = %s
  Shapes = %s
  %s
CHECK_DEADLOCK FALSE
%s
''' % (tla_set(conn), tla_set(ident), tla_set(weak), tla_set(sl['AVals']), tla_set(sl['Proofs']), tla_set(sl['Seals']),
       tla_set(sl['Bodies']), tla_set(sl['Shapes']), consts, tail)


def pick_one_per_prefix(sim, seed):
    pick = {}
    for wd in sim:
        pick.setdefault(json.dumps(wd[:-1], sort_keys=True), []).append(wd)
    return [sample(v, 1, seed)[0] for k, v in sorted(pick.items())]


@register('C02')
def pairsetup_family(run, replay=None):
    thorough = run.tier == 'thorough'
    gen_tail = 'INIT GInit\nNEXT GNext\n'
    if replay and replay.get('context') == 'batch' and replay.get('batch_file') and os.path.exists(replay['batch_file']):
        bpath = os.path.join(run.dir, 'beh.ndjson')
        shutil.copyfile(replay['batch_file'], bpath)
        behs = read_ndjson(bpath)
        stats = dict(replay=True, batch=True)
    elif replay:
        behs = [replay['behaviour']]
        bpath = os.path.join(run.dir, 'beh.ndjson')
        with open(bpath, 'w') as f:
            f.write(json.dumps(behs[0]) + '\n')
        stats = dict(replay=True)
    else:
        run.model_check('PairSetup', 'PairSetup_MC.cfg', workers=8)
        edge = dedupe_prefixes(run.generate('PairSetupGen', cfgtext=ps_cfg(["c1"], ["a"], PS_ALL, tail=gen_tail + 'INVARIANT EmitEdge\nVIEW EdgeView')))
        edge2 = dedupe_prefixes(run.generate('PairSetupGen', cfgtext=ps_cfg(["c1", "c2"], ["a", "b"] if thorough else ["a"], PS_CORE, tail=gen_tail + 'INVARIANT EmitEdge\nVIEW EdgeView'), timeout=1800))
        nedge2 = len(edge2)
        if not thorough:
            edge2 = sample(edge2, 4000, run.seed)
        n = 3
        words = run.generate('PairSetupGen', cfgtext=ps_cfg(["c1"], ["a"], PS_ALL if thorough else PS_CORE, consts='MaxLen = %d' % n,
                                                             tail=gen_tail + 'INVARIANT EmitWord\nCONSTRAINT WordBound'), timeout=1800)
        nall = len(words)
        words = sample(words, 40000 if thorough else 3000, run.seed)
        words4 = []
        if thorough:
            words4 = run.generate('PairSetupGen', cfgtext=ps_cfg(["c1"], ["a"], PS_CORE, consts='MaxLen = 4',
                                                                  tail=gen_tail + 'INVARIANT EmitWord\nCONSTRAINT WordBound'), timeout=1800)
            nall += len(words4)
            words4 = sample(words4, 30000, run.seed + 1)
        attacks = []
        for g in PS_GUARDS:
            a = run.generate('PairSetupGen', cfgtext=ps_cfg(["c1", "c2"], ["a", "b"], PS_ALL, weak=[g], tail=gen_tail + 'INVARIANT NoAttack\nVIEW AttackView'), expect_violation=True)
            if not a:
                raise ToolTrouble('no attack word for guard %s' % g)
            attacks.append((g, a[0]))
        depth = 10 if thorough else 7
        sim = run.generate('PairSetupGen', cfgtext=ps_cfg(["c1", "c2"], ["a", "b"], PS_ALL, consts='SimLen = %d' % depth, tail=gen_tail + 'INVARIANT EmitSim'),
                           simulate='num=%d' % (8000 if thorough else 300), heap='2g', timeout=900, depth=depth + 1)
        groups = [('edge', edge), ('edge2', edge2), ('word', words), ('word4', words4)] + [('attack:' + g, [a]) for g, a in attacks] + [('sim', sim)]
        bpath = os.path.join(run.dir, 'beh.ndjson')
        behs = write_behs(bpath, groups)
        stats = dict(edge_words=len(edge) + len(edge2), edge_words_two_connections_enumerated=nedge2, words_enumerated=nall, words_replayed=len(words) + len(words4), attack_words=len(attacks), sim_words=len(sim), sim_depth=depth)
    run.build_harness()
    tpath = os.path.join(run.dir, 'trace.ndjson')
    out = run.harness('pairsetup', ['--beh', bpath, '--trace', tpath, '--seed', run.seed, '--tier', run.tier])
    log('  ' + out.strip().splitlines()[-1])
    viols, ok, _ = run.validate('PairSetupTrace', 'PairSetupTrace.cfg', tpath)
    lines = read_ndjson(tpath)

    def confirm(b, rule):
        p2 = os.path.join(run.dir, 'confirm.ndjson')
        t2 = os.path.join(run.dir, 'confirm-trace.ndjson')
        with open(p2, 'w') as f:
            f.write(json.dumps(b) + '\n')
        run.harness('pairsetup', ['--beh', p2, '--trace', t2, '--seed', run.seed, '--tier', run.tier])
        v2, _, _ = run.validate('PairSetupTrace', 'PairSetupTrace.cfg', t2)
        return any(v[0] == rule for v in v2)

    honest = sum(1 for x in lines if x.get('ev') == 'msg' and x['m'].get('t') == 'Kex' and x.get('state') == 6 and x.get('err') == 0 and x.get('m6ok'))
    proofs = sum(1 for x in lines if x.get('holds'))
    vacuous = not replay and (honest == 0 or proofs == 0)

    def confirm_batch():
        t3 = os.path.join(run.dir, 'batch-trace.ndjson')
        run.harness('pairsetup', ['--beh', bpath, '--trace', t3, '--seed', run.seed, '--tier', run.tier])
        v3, _, _ = run.validate('PairSetupTrace', 'PairSetupTrace.cfg', t3)
        return v3, read_ndjson(t3)

    drift = sum(1 for x in lines if x.get('ev') == 'msg' and x.get('skipped'))
    cov = mc_summary(run)
    cov.update(stats)
    if not replay and run.tier == 'thorough':
        cov['binding_selftest'] = binding_selftest(run, 'PairSetupTrace', lines, viols, CORRUPTIONS['pairsetup'])
    cov.update(dict(
        traces_validated_against_impl=len(behs),
        evaluations=sum(1 for x in lines if x.get('ev') == 'msg'),
        distinct_nontrivial=len(set(canon_word(b['steps']) for b in behs if any(s.get('exp') in ('M4proof', 'M6ok') for s in b['steps']))),
        rule='TLC-generated words over the pair-setup message alphabet of PairSetup.tla (edge mode one word per model transition, word mode all words up to the stated length sampled above the cap, attack words per named guard, simulation over two connections); distinct = canonical abstract word, non-trivial = contains an accepted proof or a stored pairing in the design spec',
        samples=[dict(behaviour=b, observed=[x for x in lines if x.get('case') == b['id']][:6]) for b in behs[:1]] + [dict(behaviour=b) for b in behs[-2:]],
        honest_pairings_completed=honest, accepted_proofs=proofs, steps_skipped_drift=drift, trace_lines=len(lines), rules=['StoreRule', 'ProofOnlyForRightProof'],
    ))
    assumptions = ['the reference controller implements SRP-6a / HKDF / ChaCha20-Poly1305 / Ed25519 as in the HAP specification (it completes honest pairings with hc in this very run)',
                   'one seeded concretisation (setup code, controller identifier, key pair, flipped bit) per abstract word']
    rc = finish(run, 'model_checking', {}, behs, lines, viols, cov, assumptions, 'pairsetup', confirm=confirm, confirm_batch=confirm_batch, batch_file=bpath)
    if rc == 0 and vacuous:
        raise ToolTrouble('vacuous run: no honest pairing completed (proofs=%d, pairings=%d)' % (proofs, honest))
    return rc


# =====================================================================================================
# Notify family: C10
# =====================================================================================================

NT_GUARDS = ["held_back_events_all_delivered", "event_carries_change_value", "changes_notified_in_order", "skip_originator", "only_subscribed", "unsubscribe_clears", "session_removed_on_close", "no_event_on_same_value",
             "subscribe_requires_ev_perm", "notified_once", "write_tolerates_vanished_session"]


def nt_cfg(conn, chars, weak=(), tail='', consts=''):
    return '''CONSTANTS
  Conn = %s
  Char = %s
  Evented = {"x", "y"}
  Weak = %s
  %s
CHECK_DEADLOCK FALSE
%s
''' % (tla_set(conn), tla_set(chars), tla_set(weak), consts, tail)


def _first(lines, pred):
    for k, x in enumerate(lines):
        if pred(x):
            return k
    return None


def _corrupt(pred, change):
    """corruption = find the first line satisfying pred and apply change(line) to a copy of it"""
    def f(lines):
        k = _first(lines, pred)
        if k is None:
            return None
        out = list(lines)
        x = json.loads(json.dumps(lines[k]))
        change(x)
        out[k] = x
        return out
    return f


# family -> [(what is corrupted, function(lines) -> corrupted lines or None, rule that must fire)]
# Demonstrates that the monitors bind: a recorded trace with ONE falsified field must be rejected by the named rule.
CORRUPTIONS = {
    'access': [('an unverified connection probed as encrypted', _corrupt(lambda x: x.get('ev') == 'probe' and x.get('c', '').startswith('e') and x.get('mode') == 'plain', lambda x: x.update(mode='enc')), 'VerifiedRule'),
               ('a refused protected request recorded as served', _corrupt(lambda x: x.get('ev') == 'step' and x.get('a') == 'Req' and x.get('c', '').startswith('e') and x.get('class') == 'Refused', lambda x: x.update({'class': 'Served'})), 'GateRule'),
               ('an EVENT on an unverified connection', _corrupt(lambda x: x.get('ev') == 'probe' and x.get('c', '').startswith('e') and x.get('mode') == 'plain', lambda x: x.update(events=1)), 'OnlyVerifiedGetEvents')],
    'pairsetup': [('a stored pairing after a start message', _corrupt(lambda x: x.get('ev') == 'msg' and x.get('m', {}).get('t') == 'Start', lambda x: x.update(store=x['store'] + ['zz'])), 'StoreRule')],
    'notify': [('one delivered EVENT removed', _corrupt(lambda x: x.get('ev') == 'act' and x.get('a') in ('Local', 'Remote') and not x.get('skipped') and len(x.get('got', [])) == 1, lambda x: x.update(got=[])), 'ExactlyOnce'),
               ('one EVENT duplicated', _corrupt(lambda x: x.get('ev') == 'act' and x.get('a') in ('Local', 'Remote') and not x.get('skipped') and len(x.get('got', [])) == 1, lambda x: x.update(got=x['got'] * 2)), 'ExactlyOnce'),
               ('the value of a nested change swapped', _corrupt(lambda x: x.get('ev') == 'act' and x.get('a') == 'Nested' and not x.get('skipped') and any(len(v) == 2 for v in x.get('seqs', {}).values()),
                                                                 lambda x: x.update(seqs={k: list(reversed(v)) for k, v in x['seqs'].items()})), 'CarriesNewValue')],
    'secchan': [('an altered stream recorded without error', _corrupt(lambda x: x.get('err') and x.get('nrel') == 0 and len(x.get('wire', [])) == 1, lambda x: x.update(err=False)), 'DetectRule')],
    'framing': [('an extra frame', _corrupt(lambda x: x.get('ev') == 'enc' and x.get('n', 0) > 0, lambda x: x.update(frames=x['frames'] + [1])), 'WireFormat')],
    'connread': [('one byte too many returned', _corrupt(lambda x: x.get('ev') == 'ret' and x.get('n', 0) > 0, lambda x: x.update(ok=False)), 'ExactBytes'),
                 ('a spurious EOF', _corrupt(lambda x: x.get('ev') == 'ret' and x.get('err') == 'none', lambda x: x.update(err='eof')), 'NoSpuriousEOFOrError')],
    'charstack': [('a read that does not return the current value', _corrupt(lambda x: x.get('a') == 'RemoteRead' and x.get('rtoks'), lambda x: x.update(rtoks=[])), 'ReadsSeeLastWrite'),
                  ('an EVENT for a characteristic without ev permission', _corrupt(lambda x: x.get('a') == 'LocalSet' and 'ev' not in x.get('perms', []), lambda x: x.update(events=1)), 'NoEventsWithoutEv'),
                  ('a 207 entry without status', _corrupt(lambda x: x.get('ev') == 'list' and x.get('http') == 207 and True in x.get('values', []), lambda x: x.update(statuses=[False] * len(x['statuses']))), 'ShapeRule')],
    'charcell': [('a stored value of a foreign type', _corrupt(lambda x: x.get('ev') == 'upd' and x.get('dyn') == x.get('fmt'), lambda x: x.update(dyn='other')), 'TypeOK'),
                 ('a remote write changing a non-writable cell', _corrupt(lambda x: x.get('a') == 'Update' and x.get('remote') and 'pw' not in x.get('perms', []), lambda x: x.update(changed=True)), 'NoWriteWithoutPw')],
    'robust': [('a handler panic', _corrupt(lambda x: x.get('ev') == 'mal', lambda x: x.update(panics=1)), 'NoPanic'),
               ('a failed follow-up handshake', _corrupt(lambda x: x.get('ev') == 'mal', lambda x: x.update(newOK=False)), 'Recovers')],
    'honest': [('M6 box not opening under PS-Msg06', _corrupt(lambda x: x.get('name') == 'M6', lambda x: x.update(opens='none')), 'Crypto'),
               ('V4 framed as ciphertext', _corrupt(lambda x: x.get('name') == 'V4', lambda x: x.update(framed='enc')), 'V4Plain')],
    'ids': [('a duplicated accessory id', _corrupt(lambda x: len(x.get('aids', [])) >= 2, lambda x: x.update(aids=[x['aids'][0]] * len(x['aids']))), 'UniqueRule')],
    'tlv8': [('a fragment of 256 bytes', _corrupt(lambda x: x.get('ev') == 'set' and x.get('len') == 256, lambda x: x.update(frags=[256])), 'WellFragmented'),
             ('an invented byte', _corrupt(lambda x: x.get('ev') == 'parse' and x.get('ok') and x.get('vals') and x['vals'][0], lambda x: x['vals'].__setitem__(0, x['vals'][0] + [7])), 'NoInventedBytes')],
    'tlvstruct': [('a dropped item', _corrupt(lambda x: x.get('ev') == 'marshal' and len(x.get('items', [])) >= 2, lambda x: x.update(items=x['items'][1:])), 'Structure')],
    'storage': [('a read returning another value', _corrupt(lambda x: x.get('op') == 'Get' and x.get('ret') in ('long', 'mid', 'short'), lambda x: x.update(ret='other')), 'MapRule')],
    'storagecrash': [('a mixture read after a kill', _corrupt(lambda x: x.get('ev') == 'crash' and x.get('killed'), lambda x: x.update(reads='other')), 'AtomicRule')],
    'lifecycle': [('sf not following the pairings', _corrupt(lambda x: x.get('running') and x.get('a') == 'pair' and x.get('ok'), lambda x: x.update(sf=1)), 'SfRule'),
                  ('a new device id after a restart', _corrupt(lambda x: x.get('a') == 'start' and x.get('i', 0) > 0 and not x.get('skipped'), lambda x: x.update(id='00:00:00:00:00:00')), 'IdentityStable')],
    'connwrite': [],
    'responses': [('a damaged response recorded', _corrupt(lambda x: x.get('a') == 'Receive' and x.get('ok'), lambda x: x.update(ok=False)), 'OwnResponse')],
    'e2e': [('a refused request recorded as served', _corrupt(lambda x: x.get('ev') == 'step' and x.get('a') in ('Read', 'Write', 'Sub') and x.get('res') == 'refused', lambda x: x.update(res='ok')), 'E2E-Gate'),
            ('a refused verification recorded as accepted', _corrupt(lambda x: x.get('ev') == 'step' and x.get('a') == 'Verify' and x.get('res') == 'refused', lambda x: x.update(res='ok')), 'E2E-Verify'),
            ('an EVENT on an unverified connection', _corrupt(lambda x: x.get('ev') == 'step' and x.get('a') == 'Read' and x.get('res') == 'refused' and x.get('running'), lambda x: x.update(got=[x['k']])), 'E2E-Leak'),
            ('a delivered EVENT removed', _corrupt(lambda x: x.get('ev') == 'step' and x.get('got'), lambda x: x.update(got=[])), 'E2E-Events'),
            ('discoverable while paired', _corrupt(lambda x: x.get('ev') == 'step' and x.get('running') and x.get('sf') == 0, lambda x: x.update(sf=1)), 'E2E-Sf'),
            ('a pairing lost over a restart', _corrupt(lambda x: x.get('ev') == 'step' and x.get('a') == 'Start' and x.get('paired'), lambda x: x.update(paired=[])), 'E2E-Pairings')],
}


def binding_selftest(run, trace_mod, lines, viols, corruptions):
    """Thorough tier: falsify one recorded field at a time and require the monitor to reject the trace with the named rule."""
    results = []
    already = set(v[0] for v in viols)
    for what, fn, rule in corruptions:
        bad = fn(lines)
        if bad is None:
            results.append(dict(corruption=what, rule=rule, applied=False))
            continue
        path = os.path.join(run.dir, 'selftest.ndjson')
        with open(path, 'w') as f:
            for x in bad:
                f.write(json.dumps(x) + '\n')
        v2, _, _ = run.validate(trace_mod, trace_mod + '.cfg', path)
        fired = any(v[0] == rule for v in v2) and (rule not in already or len([v for v in v2 if v[0] == rule]) > len([v for v in viols if v[0] == rule]))
        results.append(dict(corruption=what, rule=rule, applied=True, rejected=fired))
        if not fired:
            raise ToolTrouble('binding self-test failed: the trace with "%s" was not rejected by rule %s' % (what, rule))
    return results


def generic_family(run, replay, *, hcv, trace_mod, gen, rules, level, assumptions, rule_text, nontrivial, sanity=None, extra_cov=None, fpfun=None, pseudo=(), corruptions=None):
    """Common pipeline: model check + generate (callback) -> harness -> trace validation -> verdict."""
    bpath = os.path.join(run.dir, 'beh.ndjson')
    if replay and replay.get('context') == 'batch' and replay.get('batch_file') and os.path.exists(replay['batch_file']):
        shutil.copyfile(replay['batch_file'], bpath)       # a violation that shows only in the company of the other cases
        behs = read_ndjson(bpath)
        stats = dict(replay=True, batch=True)
    elif replay:
        behs = [replay['behaviour']]
        with open(bpath, 'w') as f:
            f.write(json.dumps(behs[0]) + '\n')
        stats = dict(replay=True)
    else:
        groups, stats = gen(run)
        behs = write_behs(bpath, groups)
        behs += [dict(p) for p in pseudo]      # cases the harness generates itself (recorded inputs carry the replay data)
    run.build_harness()
    tpath = os.path.join(run.dir, 'trace.ndjson')
    rextra = []
    if replay and isinstance(replay.get('observed'), dict) and replay['observed'].get('cell'):
        rextra = ['--extra', 'cell=' + str(replay['observed']['cell'])]
    out = run.harness(hcv, ['--beh', bpath, '--trace', tpath, '--seed', replay.get('seed', run.seed) if replay else run.seed, '--tier', run.tier] + rextra)
    log('  ' + out.strip().splitlines()[-1][:300])
    viols, ok, _ = run.validate(trace_mod, trace_mod + '.cfg', tpath)
    lines = read_ndjson(tpath)

    def confirm(b, rule, line=None):
        p2 = os.path.join(run.dir, 'confirm.ndjson')
        t2 = os.path.join(run.dir, 'confirm-trace.ndjson')
        with open(p2, 'w') as f:
            f.write(json.dumps(b) + '\n')
        extra = ['--extra', 'cell=' + str(line['cell'])] if line and line.get('cell') else []
        for attempt in range(3):      # schedule-dependent findings may need more than one execution
            run.harness(hcv, ['--beh', p2, '--trace', t2, '--seed', run.seed + (attempt if not extra else 0), '--tier', run.tier] + extra)
            v2, _, _ = run.validate(trace_mod, trace_mod + '.cfg', t2)
            if any(v[0] == rule for v in v2):
                return True
        return False

    def confirm_batch():
        t3 = os.path.join(run.dir, 'batch-trace.ndjson')
        run.harness(hcv, ['--beh', bpath, '--trace', t3, '--seed', run.seed, '--tier', run.tier])
        v3, _, _ = run.validate(trace_mod, trace_mod + '.cfg', t3)
        return v3, read_ndjson(t3)

    selftest = binding_selftest(run, trace_mod, lines, viols, corruptions or CORRUPTIONS.get(hcv, [])) if (not replay and run.tier == 'thorough') else None
    cov = mc_summary(run)
    cov.update(stats)
    cov.update(dict(
        traces_validated_against_impl=len(behs),
        evaluations=sum(1 for x in lines if x.get('ev') not in ('reset',)),
        distinct_nontrivial=len(set(canon_word(b['steps']) for b in behs if nontrivial(b))),
        rule=rule_text,
        samples=[dict(behaviour=b, observed=[x for x in lines if x.get('case') == b['id']][:6]) for b in behs[:1]] + [dict(behaviour=b) for b in behs[-2:]],
        trace_lines=len(lines), rules=sorted(r for r, p in rules.items() if p == run.prop),
    ))
    if extra_cov:
        cov.update(extra_cov(lines, behs))
    if selftest is not None:
        cov['binding_selftest'] = selftest
    rc = finish(run, level, rules, behs, lines, viols, cov, assumptions, hcv, confirm=confirm, fpfun=fpfun, confirm_batch=confirm_batch, batch_file=bpath)
    if rc == 0 and sanity and not replay:
        sanity(lines, behs)        # vacuity guards speak only when nothing was found: a broken tree may well make a run "vacuous"
    return rc


def notify_gen(run):
    thorough = run.tier == 'thorough'
    run.model_check('Notify', 'Notify_MC.cfg', workers=8)
    t = 'INIT HInit\nNEXT HNext\n'
    edge = dedupe_prefixes(run.generate('NotifyGen', cfgtext=nt_cfg(["c1", "c2", "c3"], ["x", "y", "z"] if thorough else ["x", "z"], tail=t + 'INVARIANT EmitEdge\nVIEW EdgeView'), timeout=1800))
    nedge = len(edge)
    edge = sample(edge, 60000 if thorough else 4000, run.seed)
    # second edge set: the generation view also holds what each connection last saw (hidden state of caching bugs)
    edge_seen = dedupe_prefixes(run.generate('NotifyGen', cfgtext=nt_cfg(["c1", "c2"], ["x", "y"] if thorough else ["x"], tail=t + 'INVARIANT EmitEdge\nVIEW SeenEdgeView'), timeout=1200))
    nedge += len(edge_seen)
    edge = edge + sample(edge_seen, 60000 if thorough else 4000, run.seed)
    n = 4 if thorough else 3
    words = run.generate('NotifyGen', cfgtext=nt_cfg(["c1", "c2"], ["x", "z"], consts='MaxLen = %d' % n, tail=t + 'INVARIANT EmitWord\nCONSTRAINT WordBound'), timeout=1800)
    nall = len(words)
    words = sample(words, 30000 if thorough else 1500, run.seed)
    attacks = []
    for g in NT_GUARDS:
        a = run.generate('NotifyGen', cfgtext=nt_cfg(["c1", "c2", "c3"], ["x", "y", "z"], weak=[g], tail=t + 'INVARIANT NoAttack\nVIEW AttackView'), expect_violation=True)
        if not a:
            raise ToolTrouble('no attack word for guard %s' % g)
        attacks.append((g, a[0]))
    depth = 14 if thorough else 10
    sim = run.generate('NotifyGen', cfgtext=nt_cfg(["c1", "c2", "c3"], ["x", "y", "z"], consts='SimLen = %d' % depth, tail=t + 'INVARIANT EmitSim'),
                       simulate='num=%d' % (20000 if thorough else 400), heap='2g', timeout=1200, depth=depth + 1)
    # two controllers writing the same new value at the same time, many rounds (RemoteWriteRace of Notify.tla)
    rounds = 6000 if thorough else 1500
    race = [dict(a='Connect', c=c, ch='none', v=0) for c in ('c1', 'c2', 'c3')] + [dict(a='Sub', c=c, ch='x', v=0) for c in ('c1', 'c2', 'c3')]
    race += [dict(a='RemoteRace', c='c1', d='c2', ch='x', v=(i + 1) % 2) for i in range(rounds)]
    race2 = [dict(a='Connect', c=c, ch='none', v=0) for c in ('c1', 'c2', 'c3')] + [dict(a='Sub', c='c3', ch='y', v=0), dict(a='Sub', c='c2', ch='y', v=0)]
    race2 += [dict(a='RemoteRace', c='c1', d='c2', ch='y', v=(i + 1) % 2) for i in range(rounds // 3)]
    # two goroutines of the application set the other value and the current value at the same time (LocalPair of Notify.tla)
    race3 = [dict(a='Connect', c=c, ch='none', v=0) for c in ('c1', 'c2', 'c3')] + [dict(a='Sub', c=c, ch='x', v=0) for c in ('c1', 'c2')]
    race3 += [dict(a='LocalPair', c='app', ch='x', v=0) for i in range(rounds)]
    groups = [('edge', edge), ('word', words)] + [('attack:' + g, [a]) for g, a in attacks] + [('sim', sim), ('race', [race, race2, race3])]
    return groups, dict(racing_write_rounds=rounds + rounds // 3, edge_words=len(edge), edge_words_enumerated=nedge, words_enumerated=nall, words_replayed=len(words), word_len=n,
                        attack_words=len(attacks), sim_words=len(sim), sim_depth=depth)


@register('C10')
def notify_family(run, replay=None):
    def sanity(lines, behs):
        ev = sum(len(x.get('got', [])) for x in lines if x.get('ev') == 'act')
        if ev == 0:
            raise ToolTrouble('vacuous run: no EVENT was ever observed')

    def extra(lines, behs):
        return dict(events_observed=sum(len(x.get('got', [])) for x in lines if x.get('ev') == 'act'),
                    racing_close_steps=sum(1 for x in lines if x.get('a') == 'LocalRace' and not x.get('skipped')),
                    getter_reads=sum(1 for x in lines if x.get('a') == 'Getter' and not x.get('skipped')), events_after_getter_reads=sum(len(x.get('got', [])) for x in lines if x.get('a') == 'Getter'),
                    steps_skipped_drift=sum(1 for x in lines if x.get('skipped')))
    return generic_family(run, replay, hcv='notify', trace_mod='NotifyTrace', gen=notify_gen,
                          rules={'ExactlyOnce': 'C10', 'CarriesNewValue': 'C10', 'NoAppPanic': 'C10', 'FenceAnswered': 'C10'}, level='model_checking',
                          assumptions=['three reference controllers with pre-seeded pairings, real pair-verify, encrypted sessions over loopback TCP',
                                       'EVENTs are attributed to an action by fencing every open connection with its own request/response after the action (events are written synchronously by hc before the causing call returns)',
                                       'a closed connection cannot be observed receiving anything: observed white-box as "the context holds no session for it" and black-box as "a reconnect starts without subscriptions"',
                                       'ProgrammableSwitchEvent (event per press by contract) is outside the same-value alphabet'],
                          rule_text='TLC-generated histories of connect / close / subscribe / unsubscribe / local set / remote write / read answered by an application getter / a change answered by a second change from inside a callback of the application (Nested) / local set racing a close over 3 connections and 3 characteristics on 2 accessories (edge mode, words, attack words per named guard, simulation); distinct = canonical abstract word; non-trivial = the design spec expects at least one EVENT in it',
                          nontrivial=lambda b: any(sum(s.get('exp', {}).values()) > 0 for s in b['steps']),
                          sanity=sanity, extra_cov=extra)


# =====================================================================================================
# SecureChannel (C05) and Framing (C06)
# =====================================================================================================

SC_GUARDS = ["error_is_final", "tag_checked", "keys_depend_on_secret", "keys_differ_per_direction", "nonce_is_counter", "counter_incremented"]


def sc_cfg(nsent, maxwire, weak=(), tail=''):
    return 'CONSTANTS\n  NSent = %d\n  MaxWire = %d\n  Weak = %s\nCHECK_DEADLOCK FALSE\n%s\n' % (nsent, maxwire, tla_set(weak), tail)


def secchan_gen(run):
    thorough = run.tier == 'thorough'
    run.model_check('SecureChannel', 'SecureChannel_MC.cfg', workers=8)
    ns, mw = (3, 3) if thorough else (2, 3)
    streams = run.generate('SecureChannelGen', cfgtext=sc_cfg(ns, mw, tail='INIT Init\nNEXT Next\nINVARIANT EmitInit\nCONSTRAINT OnlyInit'), timeout=1800, heap='6g')
    nall = len(streams)
    extra = []
    if not thorough:
        # a seeded sample of the 3-frame space on top of the exhaustive 2-frame space
        big = run.generate('SecureChannelGen', cfgtext=sc_cfg(3, 2, tail='INIT Init\nNEXT Next\nINVARIANT EmitInit\nCONSTRAINT OnlyInit'), timeout=900)
        extra = sample(big, 1500, run.seed)
    else:
        big = run.generate('SecureChannelGen', cfgtext=sc_cfg(4, 2, tail='INIT Init\nNEXT Next\nINVARIANT EmitInit\nCONSTRAINT OnlyInit'), timeout=900)
        extra = big
    attacks = []
    for g in SC_GUARDS:
        a = run.generate('SecureChannelGen', cfgtext=sc_cfg(3, 3, weak=[g], tail='INIT Init\nNEXT Next\nINVARIANT NoAttack'), expect_violation=True, heap='6g')
        if not a:
            raise ToolTrouble('no attack stream for guard %s' % g)
        attacks.append((g, a[0]))
    groups = [('stream', streams), ('stream-sampled', extra)] + [('attack:' + g, [a]) for g, a in attacks]
    return groups, dict(streams_enumerated=nall + len(extra), frames_sent=ns, max_wire=mw, attack_streams=len(attacks), exhaustive=True)


@register('C05')
def secchan_family(run, replay=None):
    def extra(lines, behs):
        return dict(concrete_streams=len(lines), altered_streams=sum(1 for x in lines if x.get('err')),
                    untouched_streams_accepted=sum(1 for x in lines if not x.get('err')))

    def sanity(lines, behs):
        if not any(not x.get('err') and x.get('nrel', 0) > 0 for x in lines):
            raise ToolTrouble('vacuous run: no genuine stream was ever accepted')
    return generic_family(run, replay, hcv='secchan', trace_mod='SecureChannelTrace', gen=secchan_gen,
                          rules={'PrefixRule': 'C05', 'DetectRule': 'C05', 'GenuineAccepted': 'C05'}, level='model_checking',
                          assumptions=['frames on the wire are produced by the independent reference framing (two sessions, both directions); hc is the receiver',
                                       'alterations are single-bit flips inside the named field (every bit for short streams with small fields in the thorough tier, seeded otherwise) and truncations inside a frame',
                                       'the AEAD itself (x/crypto) is trusted'],
                          rule_text='every adversary stream (sequence of observed frames of this/another session, forward/reflected, unaltered or altered in length / ciphertext / tag / cut) up to the stated length is an initial state of SecureChannel.tla; all of them are delivered to hc\'s real Decrypt; distinct = abstract stream; non-trivial = contains at least one item that is not the next genuine frame',
                          nontrivial=lambda b: any(not (s.get('sess') == 'this' and s.get('dir') == 'fwd' and s.get('alt') == 'none' and s.get('idx') == i + 1) for i, s in enumerate(b['steps'])),
                          sanity=sanity, extra_cov=extra)


def framing_gen(run):
    thorough = run.tier == 'thorough'
    run.model_check('Framing', 'Framing_MC.cfg', workers=8)
    seqs = run.generate('FramingGen', cfgtext='CONSTANTS\n  F = 1024\n  MsgLens = {0, 1, 2, 1023, 1024, 1025, 2047, 2048, 2049, 3072, 4097}\n  MaxMsgs = %d\n  Chunkings = {"full", "one_byte", "halves", "data_with_eof"}\n  Weak = {}\nINIT Init\nNEXT Next\nINVARIANT EmitInit\nCONSTRAINT OnlyInit\nCHECK_DEADLOCK FALSE\n' % (3 if thorough else 2), timeout=1800, heap='6g')
    nseq = len(seqs)
    if not thorough:
        seqs = sample(seqs, 1500, run.seed)
    import random
    r = random.Random(run.seed)
    if thorough:
        lens = list(range(0, 4098))
        big = [r.randrange(4098, 1 << 20) for _ in range(40)]
    else:
        lens = sorted(set(list(range(0, 34)) + list(range(1000, 1050)) + list(range(2030, 2070)) + list(range(3060, 3085)) + list(range(4085, 4098)) + [r.randrange(0, 4098) for _ in range(150)]))
        big = [r.randrange(4098, 1 << 18) for _ in range(6)]
    sweep = [[dict(len=n, chunk=c)] for n in lens + big for c in ("full", "one_byte", "halves", "data_with_eof")]
    attacks = []
    for g in ["reader_filled_before_framing", "counter_continues_across_messages"]:
        a = run.generate('FramingGen', cfgtext='CONSTANTS\n  F = 1024\n  MsgLens = {0, 1, 2, 1023, 1024, 1025, 2049}\n  MaxMsgs = 2\n  Chunkings = {"full", "one_byte", "halves", "data_with_eof"}\n  Weak = %s\nINIT Init\nNEXT Next\nINVARIANT NoAttack\nCHECK_DEADLOCK FALSE\n' % tla_set([g]), expect_violation=True)
        if not a:
            raise ToolTrouble('no attack sequence for guard %s' % g)
        attacks.append((g, a[0]))
    groups = [('sweep', sweep), ('sequence', seqs)] + [('attack:' + g, [a]) for g, a in attacks]
    return groups, dict(lengths_swept=len(lens), lengths_0_4097_exhaustive=thorough, large_lengths_sampled=len(big), sequences_enumerated=nseq, sequences_replayed=len(seqs), exhaustive=thorough)


@register('C06')
def framing_family(run, replay=None):
    return generic_family(run, replay, hcv='framing', trace_mod='FramingTrace', gen=framing_gen,
                          rules={'WireFormat': 'C06', 'RoundTrip': 'C06'}, level='model_checking',
                          assumptions=['the reference framing in harness/ref (HKDF-SHA-512 Control-Salt keys, 64-bit LE counter nonce, 2-byte LE length as AAD) is the wire-format oracle; it interoperates with hc on the honest path',
                                       'payload contents are seeded random bytes'],
                          rule_text='one message per payload length (every length 0..4097 in the thorough tier, boundary regions plus a seeded sample in quick) x 4 source-reader chunkings, plus every message sequence that is an initial state of Framing.tla; frame lengths are judged by the FramesOf operator evaluated by TLC on each recorded line; distinct = (lengths, chunkings); non-trivial = payload longer than one byte',
                          nontrivial=lambda b: any(s.get('len', 0) > 1 for s in b['steps']),
                          fpfun=lambda rule, b, line: '%s/chunk=%s,len%s' % (rule, line.get('chunk'), '=0' if line.get('n') == 0 else '<=1024' if line.get('n', 0) <= 1024 else '>1024'))


# =====================================================================================================
# ConnRead (C07)
# =====================================================================================================

CR_GUARDS = ["readahead_kept_across_calls", "frame_at_a_time", "remainder_not_reported_as_eof", "timeout_keeps_partial_frame", "session_removed_by_owner_only"]


def cr_cfg(lens, maxmsgs, bufs, weak=(), tail='', consts=''):
    return '''CONSTANTS
  F = 1024
  OVH = 18
  BUFSZ = 4096
  MsgLens = {%s}
  MaxMsgs = %d
  CallerBufs = {%s}
  Weak = %s
  %s
CHECK_DEADLOCK FALSE
%s
''' % (', '.join(map(str, lens)), maxmsgs, ', '.join(map(str, bufs)), tla_set(weak), consts, tail)


def connread_gen(run):
    thorough = run.tier == 'thorough'
    if thorough:
        run.model_check('ConnRead', 'ConnRead_MC.cfg', workers=12, timeout=1800, heap='12g')
    else:
        run.model_check('ConnRead', 'mc.cfg', workers=8, cfgtext=cr_cfg([1, 16, 1024, 1030, 2048], 2, [1, 16, 4096],
                        tail='SPECIFICATION Spec\nINVARIANTS NoSpuriousEOFOrError NoNeedlessBlock ExactBytes\nVIEW View'))
    t = 'INIT GInit\nNEXT GNext\n'
    edge = dedupe_prefixes(run.generate('ConnReadGen', cfgtext=cr_cfg([5, 16, 1024, 1030], 2, [16, 4096], tail=t + 'INVARIANT EmitEdge\nVIEW EdgeView'), timeout=1800, heap='6g'))
    nedge = len(edge)
    if not thorough:
        edge = sample(edge, 3000, run.seed)
    attacks = []
    for g in CR_GUARDS:
        a = run.generate('ConnReadGen', cfgtext=cr_cfg([5, 16, 1024, 1030], 2, [16, 4096], weak=[g], tail=t + 'INVARIANT NoAttack\nVIEW AttackView'), expect_violation=True, timeout=900)
        if not a:
            raise ToolTrouble('no attack scenario for guard %s' % g)
        attacks.append((g, a[0]))
    depth = 14 if thorough else 10
    sims = []
    for k, (lens, bufs) in enumerate([([1, 15, 16, 17, 1023, 1024, 1025, 2048, 3072, 4096, 4097], [1, 16, 1024, 4096]),
                                      ([0, 1, 2, 1041, 1042, 1043, 2047, 2049], [1, 2, 1042, 4096])]):
        sims += run.generate('ConnReadGen', cfgtext=cr_cfg(lens, 3, bufs, consts='SimLen = %d' % depth, tail=t + 'INVARIANT EmitSim'),
                             simulate='num=%d' % (40000 if thorough else 2500), heap='2g', timeout=1800, depth=depth + 2)
    groups = [('edge', edge)] + [('attack:' + g, [a]) for g, a in attacks] + [('sim', sims)]
    return groups, dict(edge_scenarios=len(edge), edge_scenarios_enumerated=nedge, attack_scenarios=len(attacks), sim_scenarios=len(sims), sim_depth=depth)


@register('C07')
def connread_family(run, replay=None):
    def extra(lines, behs):
        return dict(read_calls=sum(1 for x in lines if x.get('ev') == 'read'), reads_returned=sum(1 for x in lines if x.get('ev') == 'ret'),
                    reads_waiting=sum(1 for x in lines if x.get('ev') == 'pend'), timeouts_fired=sum(1 for x in lines if x.get('ev') == 'fire'),
                    bytes_delivered=sum(x.get('n', 0) for x in lines if x.get('ev') == 'ret'))

    def fp(rule, b, line):
        # the scenario shape identifies a finding: message length classes, and the action at which the rule failed
        def cls(n):
            return '0' if n == 0 else 'k*1024' if n % 1024 == 0 else '<1024' if n < 1024 else '>1024'
        msgs = b['steps'][0].get('msgs', [])
        return '%s/msgs=%s;at=%s' % (rule, '+'.join(cls(n) for n in msgs), line.get('ev'))
    return generic_family(run, replay, hcv='connread', trace_mod='ConnReadTrace', gen=connread_gen,
                          rules={'ExactBytes': 'C07', 'NoSpuriousEOFOrError': 'C07', 'NoNeedlessBlock': 'C07'}, level='model_checking',
                          assumptions=['the network is a scripted net.Conn (segments, read deadlines and "reader is waiting" are controlled and observed exactly); real TCP behaviour is modelled, not observed',
                                       'ciphertext is produced by the independent reference framing',
                                       'after the scripted steps the driver lets everything arrive and reads with a 4096-byte buffer until nothing more comes, so that lost or stuck bytes are always noticed'],
                          rule_text='scenarios = message lengths x segmentations (cut points at frame boundaries, inside the tag, after the first byte) x caller buffer sizes x read deadlines, generated by TLC from ConnRead.tla (one per model transition of a small configuration, an attack scenario per named guard, simulation over the large length sets); distinct = abstract scenario; non-trivial = at least one Read returns data in the design spec',
                          nontrivial=lambda b: any(s.get('exp') == 'data' for s in b['steps']), extra_cov=extra, fpfun=fp)


# =====================================================================================================
# ConnWrite (C08)
# =====================================================================================================

def cw_cfg(writers, nf, weak=(), tail=''):
    return 'CONSTANTS\n  Writer = %s\n  NFrames <- %s\n  Weak = %s\n  PieceLen = 1\nCHECK_DEADLOCK FALSE\n%s\n' % (tla_set(writers), nf, tla_set(weak), tail)


def connwrite_gen(run):
    thorough = run.tier == 'thorough'
    run.model_check('ConnWriteMC', 'ConnWrite_MC.cfg', workers=4)
    t = 'INIT GInit\nNEXT GNext\n'
    # every interleaving of entering EncryptedWrite and writing to the socket, from the model WITHOUT the lock (adversarial scheduler)
    s2 = run.generate('ConnWriteGen', cfgtext=cw_cfg(["w1", "w2"], 'NF2', weak=["lock_around_encrypt_and_write"], tail=t + 'INVARIANT EmitDone\nCONSTRAINT Serial'))
    s3 = run.generate('ConnWriteGen', cfgtext=cw_cfg(["w1", "w2", "w3"], 'NF3', weak=["lock_around_encrypt_and_write"], tail=t + 'INVARIANT EmitDone\nCONSTRAINT Serial'))
    s2 = [json.loads(x) for x in sorted(set(json.dumps(w) for w in s2))]
    s3 = [json.loads(x) for x in sorted(set(json.dumps(w) for w in s3))]
    n3 = len(s3)
    if not thorough:
        s3 = sample(s3, 20, run.seed)
    a = run.generate('ConnWriteGen', cfgtext=cw_cfg(["w1", "w2"], 'NF2', weak=["lock_around_encrypt_and_write"], tail=t + 'INVARIANT NoAttack'), expect_violation=True)
    if not a:
        raise ToolTrouble('no attack interleaving without the lock')
    # a payload written in several critical sections (the lock is given back in between)
    a2 = run.generate('ConnWriteGen', cfgtext=cw_cfg(["w1", "w2"], 'NF2', weak=["payload_in_one_critical_section"], tail=t + 'INVARIANT NoAttack'), expect_violation=True)
    if not a2:
        raise ToolTrouble('no attack interleaving for a payload written in several critical sections')
    groups = [('interleaving2', s2), ('interleaving2big', s2), ('interleaving3', s3), ('attack:lock_around_encrypt_and_write', [a[0]]),
              ('attack:payload_in_one_critical_section', [a2[0]]), ('attack:payload_in_one_critical_section', [a2[0]])]
    return groups, dict(interleavings_2_writers=len(s2), interleavings_3_writers_enumerated=n3, interleavings_3_writers_replayed=len(s3), exhaustive=thorough)


@register('C08')
def connwrite_family(run, replay=None):
    bpath = os.path.join(run.dir, 'beh.ndjson')
    if replay:
        behs = [replay['behaviour']]
        with open(bpath, 'w') as f:
            f.write(json.dumps(behs[0]) + '\n')
        stats = dict(replay=True)
    else:
        groups, stats = connwrite_gen(run)
        behs = write_behs(bpath, groups)
        # the payload of "several frames" is two frames long, or many (49, 33 or 97: more than any piece a chunked writer takes)
        for k, b in enumerate(behs):
            if b['kind'] in ('interleaving2big', 'attack:payload_in_one_critical_section') or (b['kind'] == 'interleaving3' and k % 2 == 0):
                b['big'] = (49, 33, 97)[k % 3]
        with open(bpath, 'w') as f:
            for b in behs:
                f.write(json.dumps(b) + '\n')
    run.build_harness()
    tpath = os.path.join(run.dir, 'trace.ndjson')
    out = run.harness('connwrite', ['--beh', bpath, '--trace', tpath, '--seed', run.seed, '--tier', run.tier])
    log('  ' + out.strip().splitlines()[-1][:300])
    lines = read_ndjson(tpath)
    nstress = 0
    races = 0
    if not replay:
        # ungated stress under the race detector
        exe = run.build_harness(race=True)
        spath = os.path.join(run.dir, 'stress.ndjson')
        n = 300 if run.tier == 'thorough' else 40
        e = dict(os.environ)
        e.update(GOENV)
        e['TMPDIR'] = run.tmp
        e['GORACE'] = 'halt_on_error=0 exitcode=0'
        p = subprocess.run([exe, 'connwrite', '--extra', 'stress', '--n', str(n), '--trace', spath, '--seed', str(run.seed)], env=e, cwd=run.dir,
                           stdout=subprocess.PIPE, stderr=subprocess.STDOUT, timeout=1800)
        sout = p.stdout.decode(errors='replace')
        crashed = False
        if p.returncode != 0:
            # a crash whose stack goes through hc's write path (writers corrupting shared state until the runtime gives up) is
            # an observation about hc, anything else is trouble of the harness
            if ('panic' in sout or 'fatal error' in sout) and ('brutella/hc/hap.(*Connection)' in sout or 'brutella/hc/crypto.(*secureSession)' in sout):
                crashed = True
            else:
                raise ToolTrouble('stress harness failed rc=%d: %s' % (p.returncode, sout[-1500:]))
        # only races whose stacks go through hc's write path count
        for blk in sout.split('WARNING: DATA RACE')[1:]:
            if 'brutella/hc/hap.(*Connection)' in blk or 'brutella/hc/crypto.(*secureSession).Encrypt' in blk:
                races += 1
        sl = read_ndjson(spath) if os.path.exists(spath) else []
        if crashed:
            sl.append(dict(ev='stress', i=len(sl), ctrs=[], owners=[], intact=False, realised=True, order=[], races=0, crashed=True))
            races = max(races, 1)
        nstress = len(sl)
        stress_case = dict(id=10 ** 6, kind='stress', steps=[dict(a='Stress', w='all')])
        behs.append(stress_case)
        for x in sl:
            x['case'] = 10 ** 6
        if sl:
            sl[0]['races'] = races
        lines += sl
        with open(tpath, 'w') as f:
            for x in lines:
                f.write(json.dumps(x) + '\n')
    viols, ok, _ = run.validate('ConnWriteTrace', 'ConnWriteTrace.cfg', tpath)

    def confirm(b, rule):
        if b.get('kind') == 'stress':
            return True
        p2 = os.path.join(run.dir, 'confirm.ndjson')
        t2 = os.path.join(run.dir, 'confirm-trace.ndjson')
        with open(p2, 'w') as f:
            f.write(json.dumps(b) + '\n')
        run.harness('connwrite', ['--beh', p2, '--trace', t2, '--seed', run.seed, '--tier', run.tier])
        v2, _, _ = run.validate('ConnWriteTrace', 'ConnWriteTrace.cfg', t2)
        return any(v[0] == rule for v in v2)
    cov = mc_summary(run)
    cov.update(stats)
    realised = sum(1 for x in lines if x.get('ev') == 'sched' and x.get('realised'))
    cov.update(dict(traces_validated_against_impl=len(lines), evaluations=len(lines),
                    distinct_nontrivial=len(set(canon_word(b['steps']) for b in behs if len(b['steps']) >= 4 and b['steps'][1].get('a') == 'Begin')),
                    rule='every interleaving of "enter EncryptedWrite" and "socket write" events of 2 (and 3) writers that the model WITHOUT the write lock admits, realised on real goroutines with the verif gates; an interleaving that cannot be forced because a writer is held back by mutual exclusion is the good outcome; the captured socket bytes are opened frame by frame with the reference session; plus ungated stress runs under the Go race detector; distinct = interleaving; non-trivial = the second writer enters before the first one has written',
                    samples=[x for x in lines[:3]], schedules_realised=realised, schedules_blocked_by_mutual_exclusion=sum(1 for x in lines if x.get('ev') == 'sched' and not x.get('realised')),
                    stress_runs=nstress, data_races_in_write_path=races, rules=['InOrder', 'Contiguous', 'NoRace']))
    return finish(run, 'model_checking', {}, behs, lines, viols, cov,
                  ['scripted net.Conn capturing the socket bytes; writers are real goroutines calling hap.Connection.Write',
                   'a writer that does not reach the gate between sealing and the socket write within 60 ms while another writer is parked there is taken to be held back by mutual exclusion (a wrong guess can only hide a violation, never raise one)',
                   'the race detector reports are filtered to stacks through hc\'s write path'],
                  'connwrite', confirm=confirm,
                  fpfun=lambda rule, b, line: '%s/%s' % (rule, 'stress' if line.get('ev') == 'stress' else 'second-writer-overtakes'))


# =====================================================================================================
# Storage (C18) and StorageCrash (C19)
# =====================================================================================================

def st_cfg(raw, names, weak=(), tail='', consts=''):
    return '''CONSTANTS
  RawKey = %s
  Name = %s
  Val = {"long", "mid", "short", "empty"}
  VLen <- VLenDef
  Weak = %s
  %s
CHECK_DEADLOCK FALSE
%s
''' % (tla_set(raw), tla_set(names), tla_set(weak), consts, tail)


def storage_gen(run):
    thorough = run.tier == 'thorough'
    run.model_check('StorageMC', 'Storage_MC.cfg', workers=4)
    t = 'INIT GInit\nNEXT GNext\n'
    edge = dedupe_prefixes(run.generate('StorageGen', cfgtext=st_cfg(["k1", "k2"], ["n1", "n2"], tail=t + 'INVARIANT EmitEdge\nVIEW EdgeView'), timeout=900))
    nedge = len(edge)
    if not thorough:
        edge = sample(edge, 3000, run.seed)
    n = 4 if thorough else 3
    words = run.generate('StorageGen', cfgtext=st_cfg(["k1"], ["n1"], consts='MaxLen = %d' % n, tail=t + 'INVARIANT EmitWord\nCONSTRAINT WordBound'), timeout=1800)
    nall = len(words)
    words = sample(words, 60000 if thorough else 3000, run.seed)
    a = run.generate('StorageGen', cfgtext=st_cfg(["k1", "k2"], ["n1", "n2"], weak=["truncate_on_overwrite"], tail=t + 'INVARIANT NoAttack\nVIEW AttackView'), expect_violation=True)
    if not a:
        raise ToolTrouble('no attack history for truncate_on_overwrite')
    depth = 40 if thorough else 14
    sim = run.generate('StorageGen', cfgtext=st_cfg(["k1", "k2", "k3"], ["n1", "n2", "n3"], consts='SimLen = %d' % depth, tail=t + 'INVARIANT EmitSim'),
                       simulate='num=%d' % (20000 if thorough else 600), heap='2g', timeout=1200, depth=depth + 1)
    groups = [('edge', edge), ('word', words), ('attack:truncate_on_overwrite', [a[0]]), ('sim', sim)]
    return groups, dict(edge_words=len(edge), edge_words_enumerated=nedge, words_enumerated=nall, words_replayed=len(words), word_len=n, sim_words=len(sim), sim_depth=depth)


@register('C18')
def storage_family(run, replay=None):
    return generic_family(run, replay, hcv='storage', trace_mod='StorageTrace', gen=storage_gen,
                          rules={'MapRule': 'C18', 'ListRule': 'C18'}, level='model_checking',
                          assumptions=['a fresh temporary directory per history; concrete key names, entity names (arbitrary bytes up to 100, or the 36-character form) and value bytes are seeded per case',
                                       'a third of the cases use keys that differ only in a colon or in its escape (Lamp1.serial, Lamp:1.serial, Lamp%3A1.serial): the store has to keep them apart',
                                       'the monitor is the reference map itself: returned bytes are compared with every value written in the case and reported as its token'],
                          rule_text='TLC-generated histories of Set / Get / Delete / listing / SaveEntity / EntityWithName / DeleteEntity / Entities / Reopen over up to 3 keys and 3 entity names with values of length 0, 5, 40, 4096 (one word per model transition, all words up to the stated length on one key and one name, the attack history of the missing truncation, simulation); distinct = abstract history; non-trivial = contains an overwrite or a delete followed by a read',
                          nontrivial=lambda b: len([s for s in b['steps'] if s.get('op') in ('Set', 'SaveEntity', 'Delete', 'DeleteEntity')]) >= 2,
                          pseudo=[dict(id=3000000, kind='concurrent-writers', steps=[dict(op='ConcurrentSets')])],
                          fpfun=lambda rule, b, line: ('%s/%s' % (rule, line.get('op'))) if line.get('ev') == 'conc' else step_fingerprint(rule, b, line),
                          extra_cov=lambda lines, behs: dict(concurrent_writer_rounds=sum(1 for x in lines if x.get('ev') == 'conc')))


@register('C19')
def storagecrash_family(run, replay=None):
    def gen(run):
        run.model_check('StorageCrash', 'StorageCrash_MC.cfg', workers=4)
        scen = run.generate('StorageCrashGen', cfgtext='CONSTANTS\n  Lens = {0, 5, 40, 4096}\n  Protocol = "rename"\n  Weak = {}\nINIT Init\nNEXT Next\nINVARIANT EmitInit\nCONSTRAINT OnlyInit\nCHECK_DEADLOCK FALSE\n')
        scen = [json.loads(x) for x in sorted(set(json.dumps(s) for s in scen))]
        words = []
        for s in scen:
            for op in ('set', 'saveentity'):
                words.append([dict(op=op, old=s[0]['old'], new=s[0]['new'])])
        words.append([dict(op='transport', old='absent', new='long')])
        words.append([dict(op='transport', old='long', new='long')])
        return [('crash', words)], dict(value_pairs=len(scen), operations=3, exhaustive=True)

    def extra(lines, behs):
        pts = sorted(set(x.get('point') for x in lines))
        return dict(child_processes=len(lines), killed=sum(1 for x in lines if x.get('killed')), crash_points=pts,
                    protocol_indicated_by_crash_points='rename' if any('tmp' in p for p in pts) else 'inplace')
    rc = generic_family(run, replay, hcv='storagecrash', trace_mod='StorageCrashTrace', gen=gen,
                        rules={'AtomicRule': 'C19', 'Completed': 'C19', 'OthersUntouched': 'C19', 'NoTempListed': 'C19', 'FollowUp': 'C19'}, level='fault_enumeration',
                        assumptions=['a crash is a SIGKILL of the writing process at a crash point between the file-system operations of fileStorage.Set (verif hook); power loss (unsynced directory entries) is out of scope',
                                     'the parent re-opens the directory with a fresh store and compares byte-for-byte with the old and the new value; then a short, a long, an empty and a medium value are written to the same key to the end and each is read back by a fresh store (what a killed write leaves behind must not leak into later values)'],
                        rule_text='every (old value, new value) pair over absent / 0 / 5 / 40 / 4096 bytes (the initial states of StorageCrash.tla) x every crash point the operation passes (counted by a recording run) x {Set, SaveEntity}, plus the construction of a transport (uuid, version, configHash, device entity) on an empty and on a used directory; distinct = (operation, old, new); non-trivial = old and new differ in length',
                        nontrivial=lambda b: b['steps'][0].get('old') != b['steps'][0].get('new'), extra_cov=extra,
                        fpfun=lambda rule, b, line: '%s/%s,old=%s,new=%s,point=%s,key=%s' % (rule, line.get('op'), 'absent' if line.get('old') == 'absent' else 'present', 'x', line.get('point'), line.get('key')))
    return rc


# =====================================================================================================
# Lifecycle + SetupCode (C20)
# =====================================================================================================

LC_GUARDS = ["id_stored_before_keypair", "own_key_not_a_pairing", "uuid_loaded", "keypair_loaded", "hash_ignores_values", "version_bumped", "sf_from_pairings", "sf_updated_on_pair", "sf_updated_on_unpair"]
LC_RULES = {'IdentityStable': 'C20', 'SfRule': 'C20', 'CnumRule': 'C20', 'PairingsPersist': 'C20', 'ActionAccepted': 'C20', 'PinRule': 'C20', 'UriRule': 'C20'}


def lc_cfg(weak=(), tail='', consts=''):
    return 'CONSTANTS\n  Structure = {"s1", "s2"}\n  Ctrl = {"a", "b"}\n  MaxGen = 3\n  Weak = %s\n  %s\nCHECK_DEADLOCK FALSE\n%s\n' % (tla_set(weak), consts, tail)


def lifecycle_gen(run):
    thorough = run.tier == 'thorough'
    run.model_check('Lifecycle', 'Lifecycle_MC.cfg', workers=4)
    t = 'INIT GInit\nNEXT GNext\n'
    edge = dedupe_prefixes(run.generate('LifecycleGen', cfgtext=lc_cfg(tail=t + 'INVARIANT EmitEdge\nVIEW EdgeView\nCONSTRAINT Bound')))
    n = 5 if thorough else 4
    words = run.generate('LifecycleGen', cfgtext=lc_cfg(consts='MaxLen = %d' % n, tail=t + 'INVARIANT EmitWord\nCONSTRAINT WordBound'), timeout=1200)
    nall = len(words)
    words = sample(words, 1500 if thorough else 60, run.seed)
    if not thorough:
        edge = sample(edge, 60, run.seed)
    attacks = []
    for g in LC_GUARDS:
        a = run.generate('LifecycleGen', cfgtext=lc_cfg(weak=[g], tail=t + 'INVARIANT NoAttack\nVIEW AttackView\nCONSTRAINT Bound'), expect_violation=True)
        if not a:
            raise ToolTrouble('no attack history for guard %s' % g)
        attacks.append((g, a[0]))
    # the first start killed at every crash point of its storage writes (KilledStart of Lifecycle.tla), then normal life
    kills = [[dict(a='killstart', x='k%d' % k), dict(a='start', x='s1'), dict(a='pair', x='a'), dict(a='stop', x='none'), dict(a='start', x='s1'), dict(a='unpair', x='a')] for k in range(1, 26)]
    groups = [('edge', edge), ('word', words)] + [('attack:' + g, [a]) for g, a in attacks] + [('killstart', kills)]
    return groups, dict(edge_words=len(edge), words_enumerated=nall, words_replayed=len(words), word_len=n, attack_words=len(attacks), killed_first_starts=len(kills))


@register('C20')
def lifecycle_family(run, replay=None):
    if replay:
        return generic_family(run, replay, hcv='lifecycle', trace_mod='LifecycleTrace', gen=lifecycle_gen, rules=LC_RULES, level='model_checking',
                              assumptions=[], rule_text='replay', nontrivial=lambda b: True)
    # part 1: setup codes and the setup URI
    run.build_harness()
    spath = os.path.join(run.dir, 'setup.ndjson')
    out = run.harness('setupcode', ['--trace', spath, '--seed', run.seed, '--tier', run.tier], timeout=3000)
    log('  ' + out.strip().splitlines()[-1][:300])
    sviol, _, _ = run.validate('SetupCode', 'SetupCode.cfg', spath)
    slines = read_ndjson(spath)
    setup_beh = [dict(id=1, kind='pins', steps=[dict(a='ValidatePin')]), dict(id=2, kind='uris', steps=[dict(a='XHMURI')]), dict(id=3, kind='sweep', steps=[dict(a='Sweep')])]
    setup_bad = []
    for v in sviol:
        line = slines[v[1] - 1]
        what = line.get('chars') if line.get('ev') == 'pin' else {k: line.get(k) for k in ('code', 'cat', 'flags')} if line.get('ev') == 'uri' else line.get('samples')
        setup_bad.append((v[0], line.get('ev'), what))
    # part 2: restarts
    sweep = [x for x in slines if x.get('ev') == 'sweep']

    def extra(lines, behs):
        return dict(pins_evaluated=sum(1 for x in slines if x.get('ev') == 'pin'), uris_evaluated=sum(1 for x in slines if x.get('ev') == 'uri'),
                    full_code_sweep=bool(sweep), sweep_codes=100000000 if sweep else 0,
                    transport_starts=sum(1 for x in lines if x.get('a') == 'start' and not x.get('skipped')),
                    pairings_via_pair_setup=sum(1 for x in lines if x.get('a') == 'pair' and x.get('ok')),
                    removals_via_pairings_endpoint=sum(1 for x in lines if x.get('a') == 'unpair' and x.get('ok')),
                    setup_rule_violations=len(setup_bad))
    rc = generic_family(run, None, hcv='lifecycle', trace_mod='LifecycleTrace', gen=lifecycle_gen, rules=LC_RULES, level='model_checking',
                        assumptions=['pairing is done through real pair-setup with the reference controller, removal through /pairings on a pair-verified connection; structures are two different accessory sets; value changes go through the application API',
                                     'TXT records are read through the verif accessor VerifTXT(); the device id is also read from the uuid file',
                                     'setup codes: recorded evaluations of hc.ValidatePin / util.XHMURI are judged by the ValidPin operator of SetupCode.tla and by an independent base-36 decoder; the sweep over all 10^8 codes (thorough tier) runs in Go against a reference predicate whose agreement with the TLA+ operator is checked on the recorded sample'],
                        rule_text='TLC-generated histories of start / pair / unpair / value change / stop / restart with the same or a structurally different accessory set on one storage directory (one word per model transition, words up to the stated length sampled, one attack history per named guard); setup codes: all trivial codes, lengths 0..10, non-digit and non-ASCII strings, random codes; URIs: all 256 categories x 16 flag sets; distinct = abstract history; non-trivial = contains a restart or a pairing change',
                        nontrivial=lambda b: sum(1 for s in b['steps'] if s.get('a') in ('start', 'pair', 'unpair')) >= 2, extra_cov=extra)
    if setup_bad:
        known = load_known(run.prop)
        fresh = []
        for rule, ev, what in setup_bad:
            fp = '%s/%s' % (rule, ev)
            if fp in known:
                log('KNOWN-FINDING: property=%s %s (%s)' % (run.prop, known[fp], fp))
            else:
                fresh.append((fp, what))
        if fresh:
            path = os.path.join(ROOT, 'replays', 'C20-setupcode.json')
            with open(path, 'w') as f:
                json.dump(dict(property='C20', family='setupcode', violations=[dict(fingerprint=fp, input=w) for fp, w in fresh[:50]]), f, indent=1)
            log('VIOLATION property=C20 replay=%s' % path)
            log('  %s' % str(fresh[:3])[:300])
            return 1
    return rc


# =====================================================================================================
# Characteristic cell (C12, C11 at the update API)
# =====================================================================================================

CH_RULES = {'TypeOK': 'C12', 'RangeOK': 'C12', 'NoUpdatePanic': 'C12', 'NoGetterPanic': 'C12', 'Encodes': 'C12',
            'NoWriteWithoutPw': 'C11', 'NoValueWithoutPr': 'C11', 'NoEventsWithoutEv': 'C11', 'SubRefused': 'C11'}
CH_CONSTS = 'CONSTANTS\n  Formats = {"bool", "int", "float", "string"}\n  PermSets <- PermSetsDef\n  Bounds <- BoundsDef\n'


def charcell_gen(run):
    thorough = run.tier == 'thorough'
    run.model_check('CharacteristicMC', 'Characteristic_MC.cfg', workers=4)
    t = 'INIT GInit\nNEXT GNext\n'
    one = run.generate('CharacteristicGen', cfgtext='CONSTANTS\n  Formats = {"int"}\n  PermSets = {{"pr", "pw", "ev"}}\n  Bounds <- BoundsDef\n  Weak = {}\n  MaxLen = 1\n' + t + 'INVARIANT EmitWord\nCONSTRAINT WordBound\nCHECK_DEADLOCK FALSE\n')
    two = run.generate('CharacteristicGen', cfgtext='CONSTANTS\n  Formats = {"int"}\n  PermSets = {{"pr", "pw", "ev"}}\n  Bounds <- BoundsDef\n  Weak = {}\n  MaxLen = 2\n' + t + 'INVARIANT EmitWord\nCONSTRAINT WordBound\nCHECK_DEADLOCK FALSE\n')
    three = []
    if thorough:
        three = run.generate('CharacteristicGen', cfgtext='CONSTANTS\n  Formats = {"int"}\n  PermSets = {{"pr", "pw", "ev"}}\n  Bounds <- BoundsDef\n  Weak = {}\n  MaxLen = 3\n' + t + 'INVARIANT EmitWord\nCONSTRAINT WordBound\nCHECK_DEADLOCK FALSE\n', timeout=1200)
        three = sample(three, 3000, run.seed)
    uniq = lambda ws: [json.loads(x) for x in sorted(set(json.dumps([{k: v for k, v in s.items() if k != 'exp'} for s in w]) for w in ws))]
    one, two, three = uniq(one), uniq(two), uniq(three)
    attacks = []
    for g in (["string_formats_converted"], ["string_formats_converted", "compare_is_total"], ["write_needs_pw"], ["store_needs_pr"], ["value_limited_when_range_changes"]):
        a = run.generate('CharacteristicGen', cfgtext=CH_CONSTS + '  Weak = %s\n' % tla_set(g) + t + 'INVARIANT NoAttack\nVIEW AttackView\nCHECK_DEADLOCK FALSE\n', expect_violation=True)
        if not a:
            raise ToolTrouble('no attack word for guards %s' % g)
        attacks.append(('+'.join(g), a[0]))
    groups = [('word1', one), ('word2', two), ('word3', three)] + [('attack:' + g, [a]) for g, a in attacks]
    return groups, dict(words_len1=len(one), words_len2=len(two), words_len3=len(three), attack_words=len(attacks))


def charcell_family(run, replay=None):
    def extra(lines, behs):
        cells = set(x.get('cell') for x in lines)
        return dict(cells=len(cells), library_constructors=len([c for c in cells if not str(c).startswith('synthetic/')]),
                    updates=sum(1 for x in lines if x.get('a') == 'Update'), getter_reads=sum(1 for x in lines if x.get('a') == 'GetterRead'), typed_gets=sum(1 for x in lines if x.get('a') == 'TypedGet'))

    def fp(rule, b, line):
        perms = line.get('perms', [])
        return '%s/fmt=%s,cls=%s,%s,perms=%s' % (rule, line.get('fmt'), line.get('cls'), 'remote' if line.get('remote') else 'local', '+'.join(perms) if len(perms) < 3 else 'all')
    return generic_family(run, replay, hcv='charcell', trace_mod='CharacteristicTrace', gen=charcell_gen, rules=CH_RULES, level='model_checking',
                          assumptions=['constructors are found by scanning /repo/characteristic at build time (zero-argument New* functions); synthetic cells cover every permission set for every format class',
                                       'each JSON value class is concretised by a few representative values placed around the cell\'s declared bounds; remote values look like decoded JSON (float64 numbers)',
                                       'the format-range rule for cells WITHOUT declared bounds (e.g. a negative number in a uint8 cell) is not part of the verdict: the property speaks of the declared minimum and maximum'],
                          rule_text='every update word over 15 JSON value classes x {local, remote} x {update, value supplied by an installed getter and stored on a read} plus typed getter (all words of length 1 on every cell; length 2 on a seeded twelfth of the cells in quick, on all cells in thorough; sampled length 3 in thorough; attack words per named guard) applied to every characteristic constructor of the library and to synthetic cells; distinct = abstract word; non-trivial = contains an update',
                          nontrivial=lambda b: any(s.get('a') in ('Update', 'GetterRead') for s in b['steps']), extra_cov=extra, fpfun=fp)


REGISTRY['C12'] = charcell_family


# =====================================================================================================
# Characteristic through the stack (C09, C11 over HTTP)
# =====================================================================================================

CS_RULES = {'ReadsSeeLastWrite': 'C09', 'WriteReachesApp': 'C09', 'ShapeRule': 'C09', 'NoPanic': 'C09', 'SubAccepted': 'C09',
            'NoWriteWithoutPw': 'C11', 'NoValueWithoutPr': 'C11', 'SubRefused': 'C11', 'NoEventsWithoutEv': 'C11'}


def cs_cfg(perms, maxlist, weak=(), tail='', consts=''):
    return 'CONSTANTS\n  Perms = %s\n  Tok = {"v0", "v1", "v2"}\n  Ids = {"e1", "e2", "wo", "missing"}\n  WIds = {"w1", "w2", "ro", "missing"}\n  MaxList = %d\n  Weak = %s\n  %s\nCHECK_DEADLOCK FALSE\n%s\n' % (tla_set(perms), maxlist, tla_set(weak), consts, tail)


def charstack_gen(run):
    thorough = run.tier == 'thorough'
    for perms in (["pr", "pw", "ev"], ["pw"], ["pr"], ["pr", "ev"]):
        run.model_check('CharStack', 'mc.cfg', workers=2, cfgtext=cs_cfg(perms, 3, tail='SPECIFICATION Spec\nINVARIANTS ReadsSeeLastWrite NoValueWithoutPr NoEventsWithoutEv ShapeRule\nPROPERTIES NoWriteWithoutPw CallbackReached'))
    t = 'INIT GInit\nNEXT GNext\n'
    n = 4 if thorough else 3
    words = run.generate('CharStackGen', cfgtext=cs_cfg(["pr", "pw", "ev"], 1, consts='MaxLen = %d' % n, tail=t + 'INVARIANT EmitWord\nCONSTRAINT WordBound'), timeout=1200)
    # register words and list reads are separate kinds of case
    reg = [w for w in words if not any(s['a'] in ('ReadList', 'WriteList') for s in w)]
    reg = [json.loads(x) for x in sorted(set(json.dumps([{k: v for k, v in s.items() if k not in ('exp', 'ids')} for s in w]) for w in reg))]
    nreg = len(reg)
    reg = sample(reg, 1500 if thorough else 240, run.seed)
    import itertools
    kinds = ["e1", "e2", "wo", "missing"]
    lists = [[dict(a='ReadList', tok='none', ids=list(c))] for k in range(1, (4 if thorough else 3) + 1) for c in itertools.product(kinds, repeat=k)]
    # list writes: every list over {writable, writable, read-only, missing}, a writable cell at most once per request
    wkinds = ["w1", "w2", "ro", "missing"]
    lists += [[dict(a='WriteList', tok='none', ids=list(c))] for k in range(1, (4 if thorough else 3) + 1) for c in itertools.product(wkinds, repeat=k)
              if list(c).count('w1') <= 1 and list(c).count('w2') <= 1]
    attacks = []
    for perms, g in ((["pr", "pw"], "listener_panic_does_not_block_later_changes"), (["pr"], "ev_checked_whatever_the_write_did"), (["pr"], "refused_write_reported"), (["pw"], "status_in_every_entry"), (["pr"], "write_needs_pw"), (["pr", "pw"], "subscribe_needs_ev"), (["pr", "pw"], "subscription_per_accessory_and_id")):
        a = run.generate('CharStackGen', cfgtext=cs_cfg(perms, 2, weak=[g], tail=t + 'INVARIANT NoAttack\nVIEW AttackView'), expect_violation=True)
        if not a:
            raise ToolTrouble('no attack word for guard %s' % g)
        w = a[0]
        if any(s['a'] in ('ReadList', 'WriteList') for s in w):
            lists.append([s for s in w if s['a'] in ('ReadList', 'WriteList')][:1])
        else:
            attacks.append((g, [{k: v for k, v in s.items() if k not in ('exp', 'ids')} for s in w]))
    must = [[dict(a='Sub', tok='none'), dict(a='LocalSet', tok='v1'), dict(a='LocalSet', tok='v2')],
            [dict(a='Sub', tok='none'), dict(a='RemoteWrite', tok='v1'), dict(a='LocalSet', tok='v2'), dict(a='RemoteRead', tok='none')],
            [dict(a='RemoteWrite', tok='v1'), dict(a='RemoteWrite', tok='v1'), dict(a='AccRead', tok='none')],
            [dict(a='RemoteWrite', tok='v0'), dict(a='RemoteWrite', tok='v2'), dict(a='RemoteRead', tok='none')]]
    groups = [('word', reg), ('list', lists)] + [('attack:' + g, [a]) for g, a in attacks] + [('attack:must-run', must)]
    return groups, dict(register_words_enumerated=nreg, register_words_replayed=len(reg), word_len=n, id_lists=len(lists))


def charstack_family(run, replay=None):
    def extra(lines, behs):
        cells = set(x.get('cell') for x in lines if x.get('cell'))
        return dict(characteristics=len(cells), remote_reads=sum(1 for x in lines if x.get('a') == 'RemoteRead'), remote_writes=sum(1 for x in lines if x.get('a') == 'RemoteWrite'),
                    accessories_reads=sum(1 for x in lines if x.get('a') == 'AccRead'), list_reads=sum(1 for x in lines if x.get('ev') == 'list'), list_writes=sum(1 for x in lines if x.get('ev') == 'wlist'),
                    subscriptions=sum(1 for x in lines if x.get('a') == 'Sub'))

    def fp(rule, b, line):
        if line.get('ev') == 'wlist':
            return '%s/wlist=%s' % (rule, ','.join(sorted(set(line.get('kinds', [])))))
        if line.get('ev') == 'list':
            return '%s/list=%s' % (rule, ','.join(sorted(set(line.get('kinds', [])))))
        perms = line.get('perms', [])
        return '%s/%s,fmt=%s,perms=%s' % (rule, line.get('a'), line.get('fmt'), '+'.join(perms))
    def sanity(lines, behs):
        if sum(x.get('events', 0) for x in lines if x.get('ev') == 'op') == 0:
            raise ToolTrouble('vacuous run: no EVENT was observed on any characteristic with event permission')
    return generic_family(run, replay, hcv='charstack', trace_mod='CharStackTrace', gen=charstack_gen, rules=CS_RULES, level='model_checking', sanity=sanity,
                          assumptions=['every zero-argument characteristic constructor found in /repo/characteristic at build time is put into one attribute database (plus filler accessories: 5, 8, 45 / 155 accessories) served by a real ip transport to a pair-verified reference controller over an encrypted TCP connection',
                                       'value tokens are concretised per format: both booleans, integers at the declared minimum / maximum, floats at bounds and one step, tricky UTF-8 strings (quotes, backslashes, HTML characters, control characters, non-BMP runes), base64 payloads up to several frames',
                                       'numbers are compared numerically (1 and 1.0 are the same float), strings byte for byte'],
                          rule_text='TLC-generated operation words (local set, remote write, remote read, /accessories read, subscribe, unsubscribe over 3 value tokens) applied to every characteristic of the library through the full stack, every id list up to the stated length over {readable, readable, write-only, missing} read in one GET, and every list over {writable, writable, read-only, missing} written in one PUT; distinct = abstract word; non-trivial = contains a write followed by a read, or a list with a failing id',
                          nontrivial=lambda b: (b.get('kind') == 'list' and any(k in ('wo', 'ro', 'missing') for k in b['steps'][0].get('ids', []))) or len([s for s in b['steps'] if s.get('a') in ('LocalSet', 'RemoteWrite')]) >= 1,
                          extra_cov=extra, fpfun=fp)


REGISTRY['C09'] = charstack_family


@register('C11')
def perms_family(run, replay=None):
    """C11 = the permission rules over HTTP (charstack) and at the update API (charcell)."""
    if replay:
        fam = charstack_family if replay.get('family') == 'charstack' else charcell_family
        return fam(run, replay=replay)
    rc1 = charcell_family(run)
    ev1 = json.load(open(os.path.join(ROOT, 'evidence', 'C11.json')))
    run.mc = []
    rc2 = charstack_family(run)
    ev2 = json.load(open(os.path.join(ROOT, 'evidence', 'C11.json')))
    ev2['coverage']['update_api_part'] = {k: v for k, v in ev1['coverage'].items() if k not in ('samples', 'rule')}
    ev2['coverage']['states'] += ev1['coverage'].get('states', 0)
    ev2['coverage']['transitions'] += ev1['coverage'].get('transitions', 0)
    ev2['coverage']['traces_validated_against_impl'] += ev1['coverage'].get('traces_validated_against_impl', 0)
    ev2['violations'] = ev1.get('violations', 0) + ev2.get('violations', 0)
    ev2['wall_s'] = round(time.time() - run.t0, 2)
    with open(os.path.join(ROOT, 'evidence', 'C11.json'), 'w') as f:
        json.dump(ev2, f, indent=1)
    return max(rc1, rc2)


# =====================================================================================================
# Robustness (C13)
# =====================================================================================================

@register('C13')
def robust_family(run, replay=None):
    def gen(run):
        run.model_check('Robust', 'Robust_MC.cfg', workers=2)
        scen = run.generate('RobustGen', cfgtext='CONSTANTS Weak = {}\nINIT Init\nNEXT Next\nINVARIANT EmitInit\nCONSTRAINT OnlyInit\nCHECK_DEADLOCK FALSE\n')
        scen = [json.loads(x) for x in sorted(set(json.dumps(s) for s in scen))]
        attacks = []
        for g in ["enc_length_checked", "aead_failure_answered", "values_comparable", "session_keyed_by_connection", "nonfinite_values_stay_encodable", "degenerate_keys_answered"]:
            a = run.generate('RobustGen', cfgtext='CONSTANTS Weak = %s\nINIT Init\nNEXT Next\nINVARIANT NoAttack\nCHECK_DEADLOCK FALSE\n' % tla_set([g]), expect_violation=True)
            if not a:
                raise ToolTrouble('no attack scenario for guard %s' % g)
            attacks.append((g, a[0]))
        return [('scenario', scen)] + [('attack:' + g, [a]) for g, a in attacks], dict(scenarios=len(scen), exhaustive_over_scenarios=True)

    def extra(lines, behs):
        return dict(malformed_messages=len(lines), answered=sum(1 for x in lines if x.get('answered')), dropped=sum(1 for x in lines if x.get('dropped')),
                    same_connection_handshakes_ok=sum(1 for x in lines if x.get('sameOK')), new_connection_handshakes_ok=sum(1 for x in lines if x.get('newOK')),
                    handler_panics=sum(x.get('panics', 0) for x in lines))
    return generic_family(run, replay, hcv='robust', trace_mod='RobustTrace', gen=gen,
                          rules={'NoPanic': 'C13', 'Answered': 'C13', 'Recovers': 'C13'}, level='model_checking',
                          assumptions=['hc\'s real HTTP server (hap/http.NewServer plus /resource registered as ip_transport.go does) over loopback TCP; the arbitrary part of a message is its body and the protocol state, the HTTP framing is well-formed',
                                       'panics are detected by the standard logger\'s "http: panic serving <addr>" line for the connection under test and by the dropped connection',
                                       'inside each class the bytes are a few fixed shapes plus seeded random bytes: the "arbitrary bytes" quantifier is sampled (10 variants per scenario in quick - every fixed shape of every class - and 40 in thorough)'],
                          rule_text='every (endpoint, protocol state reached by a prefix of a correct exchange, class of malformed input) triple that is an initial state of Robust.tla, each concretised by several byte strings; after each message a correct handshake on the same connection (at most one rejected start) and on a new connection; distinct = scenario triple; non-trivial = the state is reached by a non-empty correct prefix or the connection is verified',
                          nontrivial=lambda b: b['steps'][0].get('st') not in ('fresh', 'unverified'), extra_cov=extra,
                          fpfun=lambda rule, b, line: '%s/%s,%s,%s' % (rule, line.get('ep'), line.get('st'), line.get('cls')))


# =====================================================================================================
# HonestRun (C04)
# =====================================================================================================

@register('C04')
def honest_family(run, replay=None):
    def gen(run):
        thorough = run.tier == 'thorough'
        run.model_check('HonestRun', 'HonestRun_MC.cfg', workers=2)
        n = 2000 if thorough else 36
        runs = []
        for i in range(n):
            if i % 9 == 7:
                runs.append([dict(code='wrong', mode='patient', nreq=0)])
            elif i % 9 == 6:
                runs.append([dict(code='retry', mode='patient', nreq=1)])
            elif i % 9 == 8:
                runs.append([dict(code='right', mode='immediate', nreq=1)])
            elif i % 18 == 5:
                runs.append([dict(code='right', mode='pipelined', nreq=1)])
            else:
                runs.append([dict(code='right', mode='patient', nreq=1 + i % 4)])
        # the hand-over from plaintext to the encrypted session is a race with net/http's background read (D14, D16): many
        # handshakes whose first encrypted request follows M4 at once
        nimm = 600 if thorough else 200
        runs += [[dict(code='right', mode='immediate', nreq=1)] for _ in range(nimm)]
        # pair-verify again inside the session (V3V4 from a session, HonestRun.tla), and keep-alives during the hand-over
        # (Unsolicited): the switch is a race of a few microseconds, many runs
        runs += [[dict(code='right', mode='patient', nreq=1, probe=True)] for _ in range(40 if thorough else 8)]
        nrv = 300 if thorough else 60
        runs += [[dict(code='right', mode='patient', nreq=1, rv=3 + i % 3, ka=False)] for i in range(nrv)]
        runs += [[dict(code='right', mode='patient', nreq=2, rv=i % 3, ka=True)] for i in range(nrv)]
        return [('run', runs)], dict(runs=n + nimm, immediate_first_requests=nimm + n // 9, inputs='sampled by seed: setup code, controller identifier (1..64 bytes UTF-8 incl. the 36-character form), Ed25519 / X25519 keys, accessory identity, pre-existing pairings, request sizes 1 frame .. ~30 frames, attribute databases of 1 and 61 accessories')

    def sanity(lines, behs):
        ok = sum(1 for x in lines if x.get('name') == 'resp' and x.get('framed') == 'enc' and x.get('bodyok'))
        if ok == 0:
            raise ToolTrouble('vacuous run: no honest run reached an encrypted response')

    def extra(lines, behs):
        return dict(messages_parsed=len(lines), pairings_completed=sum(1 for x in lines if x.get('name') == 'M6' and x.get('stored')),
                    verifications_completed=sum(1 for x in lines if x.get('name') == 'V4' and x.get('framed') == 'plain' and x.get('state') == 4),
                    encrypted_responses=sum(1 for x in lines if x.get('name') == 'resp'), wrong_code_runs=sum(1 for x in lines if x.get('name') == 'M4err'),
                    first_request_modes=dict(immediate=sum(1 for b in behs if b['steps'][0].get('mode') == 'immediate'), pipelined=sum(1 for b in behs if b['steps'][0].get('mode') == 'pipelined')))

    def fp(rule, b, line):
        if rule.startswith('FirstRequest'):
            return rule
        import re as _re
        return '%s/%s' % (rule, line.get('name') if line.get('name') != 'fail' else _re.sub(r'[0-9]+', '#', line.get('why', ''))[:40])
    rules = {r: 'C04' for r in ('Structure', 'ItemsOnce', 'Crypto', 'WrongCode', 'Stored', 'V4Plain', 'SwitchAtomic', 'Talk', 'Setup', 'FirstRequest:immediate', 'FirstRequest:pipelined')}
    return generic_family(run, replay, hcv='honest', trace_mod='HonestRunTrace', gen=gen, rules=rules, level='model_checking',
                          assumptions=['the reference controller in harness/ref is written from the HAP specification and shares no code with hc (SRP-6a over math/big, HKDF over crypto/hmac, x/crypto AEAD, own TLV8 and framing); RFC 8439 / RFC 5869 primitives come from the Go standard library and x/crypto',
                                       'SRP padding ambiguity: when A, B or the premaster secret has a leading zero byte the exchange is redrawn (1 run in about 128), as the HAP specification does not say whether these are zero-padded inside the proofs',
                                       'inputs are sampled by seed (TLA+ cannot enumerate keys); the sequencing, hand-over point and wrong-code branch are model-checked',
                                       'a patient controller waits until the accessory has switched before its first encrypted request; immediate and pipelined controllers do not (see KNOWN_FINDINGS.txt D16)'],
                          rule_text='honest runs with sampled inputs; every accessory message is parsed symbolically by the reference controller (items present, each once; which nonce string opened the box under the prescribed key; the material order under which the signature verified; proof verification; stored entity) and compared by TLC with the structure the HAP specification prescribes; distinct = (code, first-request mode, number of requests); non-trivial = right code',
                          nontrivial=lambda b: b['steps'][0].get('code') == 'right', sanity=sanity, extra_cov=extra, fpfun=fp)


# =====================================================================================================
# TLV8 container (C16)
# =====================================================================================================

@register('C16')
def tlv8_family(run, replay=None):
    def gen(run):
        thorough = run.tier == 'thorough'
        run.model_check('TLV8', 'TLV8_MC.cfg', workers=8)
        words = run.generate('TLV8Gen', cfgtext='CONSTANTS\n  MaxFrag = 3\n  Tags = {10, 11}\n  MaxLen = 7\n  MaxSets = %d\n  Weak = {}\nINIT Init\nNEXT Next\nINVARIANT EmitWord\nCHECK_DEADLOCK FALSE\n' % (3 if thorough else 2), timeout=900)
        attacks = []
        for g in ["fragment_size", "empty_value_is_an_item"]:
            a = run.generate('TLV8Gen', cfgtext='CONSTANTS\n  MaxFrag = 3\n  Tags = {10, 11}\n  MaxLen = 7\n  MaxSets = 2\n  Weak = %s\nINIT Init\nNEXT Next\nINVARIANT NoAttack\nCHECK_DEADLOCK FALSE\n' % tla_set([g]), expect_violation=True)
            if not a:
                raise ToolTrouble('no attack word for guard %s' % g)
            attacks.append((g, a[0]))
        # the sweep: every length 0..1024 (tags cycling through 0..255), every tag at the boundary lengths, longer ones sampled
        import random
        r = random.Random(run.seed)
        sweep = [[dict(tag=L % 256, n=0, len=L)] for L in range(0, 1025)]
        sweep += [[dict(tag=t, n=0, len=L)] for t in range(256) for L in (0, 1, 255, 256)]
        sweep += [[dict(tag=r.randrange(256), n=0, len=r.randrange(1025, 70000))] for _ in range(40 if thorough else 8)]
        sweep += [[dict(tag=t1, n=0, len=L1), dict(tag=t2, n=0, len=L2), dict(tag=t1, n=0, len=L3)] for t1, t2, L1, L2, L3 in
                  [(r.randrange(256), r.randrange(256), r.choice([0, 1, 254, 255, 256, 510, 511, 1024]), r.choice([0, 1, 255, 256]), r.choice([0, 1, 255, 256, 600])) for _ in range(3000 if thorough else 300)]]
        groups = [('setword', words), ('sweep', sweep)] + [('attack:' + g, [a]) for g, a in attacks]
        return groups, dict(set_words=len(words), lengths_0_1024_exhaustive=True, tags_0_255_at_boundaries=True)

    def extra(lines, behs):
        return dict(sets=sum(1 for x in lines if x.get('ev') == 'set'), byte_strings_parsed=sum(1 for x in lines if x.get('ev') == 'parse'),
                    parse_ok=sum(1 for x in lines if x.get('ev') == 'parse' and x.get('ok')))
    return generic_family(run, replay, hcv='tlv8', trace_mod='TLV8Trace', gen=gen,
                          rules={'WellFragmented': 'C16', 'RoundTrip': 'C16', 'ParseOutcome': 'C16', 'NoInventedBytes': 'C16'}, level='model_checking',
                          assumptions=['the model is checked with fragment size 3 and byte values that identify their origin (the algorithms are parametric in the fragment size); the trace specification judges real runs with 255',
                                       'the reference TLV8 reader in harness/ref is the standard parser (a 255-byte item followed by an item of the same type continues the value)',
                                       'parser inputs are at most 64 bytes so that TLC evaluates Parse / Get on each of them: random bytes, a 4-letter alphabet, prefixes and single-bit damages of valid serialisations'],
                          rule_text='TLC-generated set-words over 2 tags x 8 model lengths mapped to the real boundary lengths (0, 1, 254, 255, 256, 509, 510, 511), every length 0..1024, every tag 0..255 at the boundary lengths, interleaved and repeated tags, longer values sampled; seeded byte strings as parser input judged line by line by the Parse and Get operators; distinct = abstract word; non-trivial = a value of at least 255 bytes or a repeated tag',
                          nontrivial=lambda b: any(s.get('len', -1) >= 255 or s.get('n', 0) >= 3 for s in b['steps']) or len(b['steps']) > 1, extra_cov=extra,
                          pseudo=[dict(id=2000000, kind='parser-input', steps=[dict(a='Parse')])],
                          fpfun=lambda rule, b, line: '%s/%s' % (rule, 'len=%s' % ('0' if line.get('len') == 0 else '<255' if line.get('len', 0) < 255 else 'k*255' if line.get('len', 0) % 255 == 0 else '>255') if line.get('ev') == 'set' else 'parse'))


# =====================================================================================================
# TLV8 struct marshalling (C17)
# =====================================================================================================

TLV_SHAPES = ["leafAll", "small", "nested", "withLists", "lists2", "lists3", "lists4", "onlyFloat", "onlyI64", "rtp.SetupEndpoints", "rtp.SetupEndpointsResponse", "rtp.StreamConfiguration",
              "rtp.VideoStreamConfiguration", "rtp.AudioStreamConfiguration", "rtp.StreamingStatus", "rtp.Configuration"]


@register('C17')
def tlvstruct_family(run, replay=None):
    def gen(run):
        run.model_check('TLV8StructMC', 'TLV8Struct_MC.cfg', workers=4)
        return [('shape', [[dict(shape=s)] for s in TLV_SHAPES])], dict(shapes=len(TLV_SHAPES))

    def extra(lines, behs):
        return dict(values_marshalled=sum(1 for x in lines if x.get('ev') == 'marshal'), byte_strings_decoded=sum(1 for x in lines if x.get('ev') == 'decode'),
                    structure_compared_by_tlc=sum(1 for x in lines if x.get('ev') == 'marshal' and x.get('parsed')))

    def fp(rule, b, line):
        kinds = ''
        if rule in ('Digits', 'RoundTrip', 'Structure'):
            kinds = ',shape=' + str(line.get('shape'))
        return '%s/%s%s' % (rule, line.get('ev'), kinds)
    return generic_family(run, replay, hcv='tlvstruct', trace_mod='TLV8StructTrace', gen=gen,
                          rules={'Structure': 'C17', 'Digits': 'C17', 'RoundTrip': 'C17', 'NoPanic': 'C17'}, level='model_checking',
                          assumptions=['TLC decides structure (tags, byte counts, nesting, list delimiters, fragmentation) by evaluating ItemsOf on the typed tree of each value; the digits of leaves (64-bit integers, IEEE-754 bits) are compared with an independent reference encoder in the harness because TLC integers are 32-bit',
                                       'values are seeded, with extremes (0, 1, -1, min, max) for every integer width and boundary lengths (0, 1, 254, 255, 256, 511, 1000) for strings and bytes; byte slices avoid zero bytes so that an element is never indistinguishable from an absent one',
                                       'item order follows field order'],
                          rule_text='synthetic struct types covering every supported field kind (8/16/32/64-bit integers, float32, bool, string, bytes, nested structs, tagged and inline lists) and the RTP message types of the library (setup endpoints, selected / supported stream configurations, streaming status), 40 (quick) / 1500 (thorough) seeded values each; truncated, damaged and random byte strings into Unmarshal; distinct = shape; non-trivial = all',
                          nontrivial=lambda b: True, extra_cov=extra, fpfun=fp)


# =====================================================================================================
# Ids (C14)
# =====================================================================================================

@register('C14')
def ids_family(run, replay=None):
    def gen(run):
        thorough = run.tier == 'thorough'
        run.model_check('IdsMC', 'Ids_MC.cfg', workers=8)
        words = run.generate('IdsMC', cfgtext='CONSTANTS\n  MaxAcc = %d\n  Explicit = {0, 1, 2, 3}\n  Shapes <- ShapesDef\n  Weak = {}\nINIT Init\nNEXT Next\nINVARIANT EmitWord\nCHECK_DEADLOCK FALSE\n' % (4 if thorough else 3), timeout=1200, heap='6g')
        words = [[{k: v for k, v in s.items() if k != 'accepted'} for s in w] for w in words]
        nall = len(words)
        if thorough:
            words = sample(words, 60000, run.seed)
        attacks = []
        for g in ["duplicate_rejected", "iid_counter_starts_at_one", "automatic_id_skips_taken", "remove_by_identity", "ids_follow_late_characteristics"]:
            a = run.generate('IdsMC', cfgtext='CONSTANTS\n  MaxAcc = 4\n  Explicit = {0, 1, 2, 3}\n  Shapes <- ShapesDef\n  Weak = %s\nINIT Init\nNEXT Next\nINVARIANT NoAttack\nCHECK_DEADLOCK FALSE\n' % tla_set([g]), expect_violation=True)
            if not a:
                raise ToolTrouble('no attack word for guard %s' % g)
            attacks.append((g, [{k: v for k, v in s.items() if k != 'accepted'} for s in a[0]]))
        return [('word', words)] + [('attack:' + g, [a]) for g, a in attacks], dict(construction_words_enumerated=nall, words_replayed=len(words), exhaustive=not thorough or nall == len(words))

    def extra(lines, behs):
        return dict(containers_built=len(lines), with_library_constructors=sum(1 for x in lines if x.get('variant', -1) >= 0),
                    characteristics_in_json=sum(len(x.get('chars', [])) for x in lines))
    return generic_family(run, replay, hcv='ids', trace_mod='IdsTrace', gen=gen,
                          rules={'UniqueRule': 'C14', 'StableRule': 'C14', 'WellFormedRule': 'C14', 'NoPanic': 'C14'}, level='model_checking',
                          assumptions=['accessories are built completely (services and characteristics added) before they are added to a container, as NewIPTransport does',
                                       'the served attribute database is the JSON encoding of the container, which is what /accessories writes',
                                       'the numbering scheme itself is not pinned: the verdict comes from uniqueness, non-zero-ness, equality of two independent builds and well-formedness'],
                          rule_text='every construction word of up to 3 (thorough 4) accessories over explicit ids 0..3 and 5 service shapes (an initial-state-free enumeration by TLC), executed with real accessory / service / characteristic objects; every accessory constructor of the library substituted for the abstract accessories in turn; each container built twice; distinct = construction word; non-trivial = at least two accessories or an explicit id',
                          nontrivial=lambda b: len(b['steps']) >= 2 or any(s.get('explicit') for s in b['steps']), extra_cov=extra,
                          pseudo=[dict(id=3000000 + k, kind='library-constructor', steps=[dict(explicit=0, shape=[])]) for k in range(64)] + [dict(id=3999999, kind='library-constructors-all', steps=[dict(explicit=0, shape=[2])])],
                          fpfun=lambda rule, b, line: '%s/%s' % (rule, 'library-constructors' if line.get('variant', -1) >= 0 else 'explicit=%s' % ','.join(('' if s.get('op', 'add') == 'add' else s.get('op') + ':') + str(s.get('explicit')) for s in b['steps'][:4])))


# =====================================================================================================
# Catalog (C15) - no dynamics: the contract evaluated by TLC over a finite snapshot
# =====================================================================================================

@register('C15')
def catalog_family(run, replay=None):
    run.build_harness()
    cpath = os.path.join(run.dir, 'ctors.ndjson')
    mpath = os.path.join(run.dir, 'meta.ndjson')
    tpath = os.path.join(run.dir, 'trace.ndjson')
    out = run.harness('catalog', ['--trace', cpath, '--seed', run.seed, '--tier', run.tier])
    log('  ' + out.strip().splitlines()[-1][:300])
    p = subprocess.run([sys.executable, os.path.join(ROOT, 'bin', 'metanorm.py'), os.path.join(REPO, 'gen/metadata.json'), mpath], stdout=subprocess.PIPE, stderr=subprocess.STDOUT)
    if p.returncode != 0:
        raise ToolTrouble('metadata normalisation failed: ' + p.stdout.decode(errors='replace')[-800:])
    log('  ' + p.stdout.decode().strip())
    lines = read_ndjson(mpath) + read_ndjson(cpath)
    with open(tpath, 'w') as f:
        for x in lines:
            f.write(json.dumps(x) + '\n')
    viols, ok, states = run.validate('Catalog', 'Catalog.cfg', tpath)
    behs = [dict(id=k, kind=n, steps=[dict(a=n)]) for k, n in ((1, 'ctor-char'), (2, 'ctor-svc'), (3, 'ctor-acc'), (4, 'meta-char'), (5, 'meta-svc'))]
    nm = sum(1 for x in lines if x['ev'].startswith('meta'))
    nc = len(lines) - nm
    cov = dict(explanation='C15 has no state and no transitions. Catalog.tla states the contract (Usable, DeclaredType, HasConstructor, Conforms, DefaultOK, ServiceOK) and TLC evaluates it over the complete snapshot: every record of gen/metadata.json (normalised by bin/metanorm.py, which shares no code with the Go generator) and one record per object returned by every exported constructor found in /repo/characteristic, /repo/service and /repo/accessory at build time, called under recover.',
               evaluations=len(lines), distinct_nontrivial=nc, exhaustive=True,
               rule='one record per metadata entry and per constructor; distinct = record; non-trivial = constructor records (each is compared with its declared type constant and, when its type id occurs in the metadata, field by field with the metadata entry)',
               samples=[lines[0], lines[nm], lines[-1]], metadata_records=nm, constructor_records=nc, states=states, transitions=states,
               traces_validated_against_impl=1,
               constructors=dict(characteristic=sum(1 for x in lines if x['ev'] == 'ctor-char'), service=sum(1 for x in lines if x['ev'] == 'ctor-svc'), accessory=sum(1 for x in lines if x['ev'] == 'ctor-acc')))

    def fp(rule, b, line):
        return '%s/%s' % (rule, line.get('name'))
    return finish(run, 'other', {}, behs, lines, viols, cov,
                  ['constructors are found by a regular-expression scan of the gofmt-formatted sources (exported New* functions with the known argument shapes)',
                   'numbers are compared as canonical decimal strings (TLC has no reals)'], 'catalog', fpfun=fp)


# =====================================================================================================
# End-to-end composition (Accessory.tla): an extra stage of C01, C03, C10 and C20
# =====================================================================================================

E2E_RULES = {'E2E-Verify': 'C03', 'E2E-Gate': 'C01', 'E2E-Leak': 'C01', 'E2E-Events': 'C10', 'E2E-Sf': 'C20', 'E2E-Pairings': 'C20', 'E2E-Pair': 'C04'}
E2E_GUARDS = ["verify_needs_stored_key", "authenticate_checks_verified", "skip_originator", "sf_updated_on_unpair", "sf_from_pairings", "sf_updated_on_pair", "lookup_reads_the_store"]
E2E_CODE_WEAK = ["sessions_of_removed_pairing_closed"]


def e2e_cfg(conn, weak=(), tail='', consts=''):
    return 'CONSTANTS\n  Conn = %s\n  Ctrl = {"a", "b"}\n  Weak = %s\n  %s\nCHECK_DEADLOCK FALSE\n%s\n' % (tla_set(conn), tla_set(list(E2E_CODE_WEAK) + list(weak)), consts, tail)


def e2e_gen(run):
    thorough = run.tier == 'thorough'
    run.model_check('Accessory', 'Accessory_MC.cfg', workers=8)
    t = 'INIT GInit\nNEXT GNext\n'
    edge = dedupe_prefixes(run.generate('AccessoryGen', cfgtext=e2e_cfg(["k1", "k2"], tail=t + 'INVARIANT EmitEdge\nVIEW EdgeView'), timeout=1200))
    nedge = len(edge)
    edge = sample(edge, 2500 if thorough else 90, run.seed)
    attacks = []
    for g in E2E_GUARDS:
        a = run.generate('AccessoryGen', cfgtext=e2e_cfg(["k1", "k2", "k3"], weak=[g], tail=t + 'INVARIANT NoAttack\nVIEW AttackView'), expect_violation=True)
        if not a:
            raise ToolTrouble('no attack word for guard %s' % g)
        attacks.append((g, a[0]))
    depth = 14 if thorough else 10
    sim = run.generate('AccessoryGen', cfgtext=e2e_cfg(["k1", "k2", "k3"], consts='SimLen = %d' % depth, tail=t + 'INVARIANT EmitSim'),
                       simulate='num=%d' % (6000 if thorough else 400), heap='2g', timeout=1200, depth=depth + 1)
    sim = sample(sim, 400 if thorough else 24, run.seed)
    groups = [('edge', edge)] + [('attack:' + g, [a]) for g, a in attacks] + [('sim', sim)]
    return groups, dict(edge_words_enumerated=nedge, edge_words=len(edge), attack_words=len(attacks), sim_words=len(sim), sim_depth=depth)


def e2e_family(run, replay=None):
    def sanity(lines, behs):
        st = [x for x in lines if x.get('ev') == 'step' and not x.get('skipped')]
        need = dict(pairings=sum(1 for x in st if x['a'] == 'Pair' and x['res'] == 'ok'), verifications=sum(1 for x in st if x['a'] == 'Verify' and x['res'] == 'ok'),
                    refused_verifications=sum(1 for x in st if x['a'] == 'Verify' and x['res'] == 'refused'), events=sum(len(x.get('got', [])) for x in st),
                    removals=sum(1 for x in st if x['a'] == 'Remove' and x['res'] == 'ok'), additions=sum(1 for x in st if x['a'] == 'Add' and x['res'] == 'ok'), restarts=sum(1 for x in st if x['a'] == 'Start'),
                    refused_requests=sum(1 for x in st if x['a'] in ('Read', 'Write', 'Sub') and x['res'] == 'refused'))
        for k, v in need.items():
            if v == 0:
                raise ToolTrouble('vacuous end-to-end run: no %s observed' % k)

    def extra(lines, behs):
        st = [x for x in lines if x.get('ev') == 'step' and not x.get('skipped')]
        return dict(e2e_pairings_via_pair_setup=sum(1 for x in st if x['a'] == 'Pair' and x['res'] == 'ok'), e2e_verifications=sum(1 for x in st if x['a'] == 'Verify' and x['res'] == 'ok'),
                    e2e_refused_verifications=sum(1 for x in st if x['a'] == 'Verify' and x['res'] == 'refused'), e2e_events=sum(len(x.get('got', [])) for x in st),
                    e2e_removals=sum(1 for x in st if x['a'] == 'Remove' and x['res'] == 'ok'), e2e_additions=sum(1 for x in st if x['a'] == 'Add' and x['res'] == 'ok'), e2e_restarts=sum(1 for x in st if x['a'] == 'Start'),
                    e2e_refused_requests=sum(1 for x in st if x['res'] == 'refused' and x['a'] not in ('Pair', 'Verify')), e2e_steps_skipped=sum(1 for x in lines if x.get('skipped')))
    return generic_family(run, replay, hcv='e2e', trace_mod='AccessoryTrace', gen=e2e_gen, rules=E2E_RULES, level='model_checking',
                          assumptions=['end-to-end histories: real pair-setup with the setup code, real pair-verify, encrypted sessions, /pairings removal, real ip transport stop and restart on one storage directory; two controllers, up to three connections',
                                       'named deviation of the code from HAP (sessions of a removed pairing stay verified) is part of the model as a missing guard, and no listed property speaks about it',
                                       'EVENTs are attributed to an action by fencing every open connection with its own request / response after the action'],
                          rule_text='TLC-generated histories of the top-level composition Accessory.tla (one word per model transition with its pre-state, sampled; one attack history per named guard; simulation words)',
                          nontrivial=lambda b: len(set(s.get('a') for s in b['steps'])) >= 3, sanity=sanity, extra_cov=extra)


def with_stage(base, stage, tag, part):
    """The property's own family, then a further stage (another specification bound to the code); one verdict, one evidence file."""
    def fam(run, replay=None):
        if replay:
            return stage(run, replay=replay) if replay.get('family') == tag else base(run, replay=replay)
        if os.environ.get('VERIF_STAGE') == tag:      # development aid: that stage alone
            return stage(run)
        epath = os.path.join(ROOT, 'evidence', '%s.json' % run.prop)
        try:
            rc1 = base(run)
        except ToolTrouble as e1:
            # the first stage is inconclusive (e.g. a violation that did not reproduce on re-execution): the other stage may
            # still decide - a violation it confirms stands, anything else leaves the run inconclusive
            log('  first stage inconclusive: %s; running the %s stage' % (str(e1)[:200], tag))
            run.mc, run.notes = [], []
            rc2 = stage(run)
            if rc2 == 1:
                return 1
            raise e1
        ev1 = json.load(open(epath))
        run.mc = []
        notes, run.notes = run.notes, []
        try:
            rc2 = stage(run)
        except ToolTrouble as e:
            if rc1 != 1:
                raise
            log('  %s stage inconclusive on a tree that already violates the property: %s' % (tag, str(e)[:200]))
            with open(epath, 'w') as f:       # the first stage's evidence stands
                json.dump(ev1, f, indent=1)
            return rc1
        ev2 = json.load(open(epath))
        c1, c2 = ev1['coverage'], ev2['coverage']
        c1[part] = {k: v for k, v in c2.items() if k not in ('samples',)}
        for k in ('states', 'transitions', 'traces_validated_against_impl', 'evaluations', 'trace_lines'):
            if isinstance(c1.get(k), (int, float)) and isinstance(c2.get(k), (int, float)):
                c1[k] += c2[k]
        ev1['assumptions'] = list(ev1.get('assumptions', [])) + [tag + ' stage: ' + a for a in ev2.get('assumptions', [])[:1]]
        ev1['violations'] = ev1.get('violations', 0) + ev2.get('violations', 0)
        ev1['wall_s'] = round(time.time() - run.t0, 2)
        with open(epath, 'w') as f:
            json.dump(ev1, f, indent=1)
        return max(rc1, rc2)
    fam.__name__ = base.__name__ + '_with_' + tag
    return fam


# =====================================================================================================
# Responses in flight to several controllers (Responses.tla): a further stage of C09
# =====================================================================================================

def responses_gen(run):
    thorough = run.tier == 'thorough'
    run.model_check('Responses', 'Responses_MC.cfg', workers=2)
    t = 'INIT GInit\nNEXT GNext\n'
    words = run.generate('ResponsesGen', cfgtext='CONSTANTS\n  Ctrl = {"c1", "c2", "c3"}\n  Weak = {}\n  MaxLen = 6\n' + t + 'INVARIANT EmitWord\nCONSTRAINT WordBound\nCHECK_DEADLOCK FALSE\n')
    words = [json.loads(x) for x in sorted(set(json.dumps(w) for w in words))]

    def overlapping(w):       # some response is served, or an event arises, while another response is still in flight
        out = set()
        for s in w:
            if s['a'] in ('Event', 'KeepAlive'):
                if out:
                    return True
            elif s['a'] == 'Send':
                if out:
                    return True
                out.add(s['c'])
            else:
                out.discard(s['c'])
        return False
    nall = len(words)
    words = [w for w in words if overlapping(w)]
    nover = len(words)
    words = sample(words, 300 if thorough else 36, run.seed)
    a = run.generate('ResponsesGen', cfgtext='CONSTANTS\n  Ctrl = {"c1", "c2"}\n  Weak = {"buffer_owned_until_written"}\n  MaxLen = 6\n' + t + 'INVARIANT NoAttack\nVIEW AttackView\nCHECK_DEADLOCK FALSE\n', expect_violation=True)
    if not a:
        raise ToolTrouble('no attack word for guard buffer_owned_until_written')
    # the attack word ends where the model breaks; close the outstanding requests so that the word is complete
    def complete(aw):
        out = []
        for s in aw:
            if s['a'] == 'Send':
                out.append(s['c'])
            elif s['c'] in out:
                out.remove(s['c'])
        return aw + [dict(a='Receive', c=c, k='none') for c in out]
    aw = complete(a[0])
    a2 = run.generate('ResponsesGen', cfgtext='CONSTANTS\n  Ctrl = {"c1", "c2"}\n  Weak = {"notifications_wait_for_response"}\n  MaxLen = 6\n' + t + 'INVARIANT NoAttack\nVIEW AttackView\nCHECK_DEADLOCK FALSE\n', expect_violation=True)
    if not a2:
        raise ToolTrouble('no attack word for guard notifications_wait_for_response')
    a4 = run.generate('ResponsesGen', cfgtext='CONSTANTS\n  Ctrl = {"c1", "c2"}\n  Weak = {"accessories_written_outside_the_lock"}\n  MaxLen = 6\n' + t + 'INVARIANT NoAttack\nVIEW AttackView\nCHECK_DEADLOCK FALSE\n', expect_violation=True)
    if not a4:
        raise ToolTrouble('no attack word for guard accessories_written_outside_the_lock')
    a3 = run.generate('ResponsesGen', cfgtext='CONSTANTS\n  Ctrl = {"c1", "c2"}\n  Weak = {"keepalives_wait_for_response"}\n  MaxLen = 6\n' + t + 'INVARIANT NoAttack\nVIEW AttackView\nCHECK_DEADLOCK FALSE\n', expect_violation=True)
    if not a3:
        raise ToolTrouble('no attack word for guard keepalives_wait_for_response')
    return [('word', words), ('attack:buffer_owned_until_written', [aw]), ('attack:notifications_wait_for_response', [complete(a2[0])]), ('attack:keepalives_wait_for_response', [complete(a3[0])]), ('attack:accessories_written_outside_the_lock', [complete(a4[0])])], dict(words_enumerated=nall, words_with_overlap=nover, words_replayed=len(words), word_len=6, attack_words=1)


def responses_family(run, replay=None):
    def sanity(lines, behs):
        big = [x for x in lines if x.get('a') == 'Receive' and x.get('n', 0) > 4000000]
        if not big:
            raise ToolTrouble('vacuous run: no response large enough to block the server in the middle was received')

    def extra(lines, behs):
        rec = [x for x in lines if x.get('a') == 'Receive']
        return dict(responses_received=len(rec), bytes_received=sum(x.get('n', 0) for x in rec), passes='1 processor, then all processors')
    return generic_family(run, replay, hcv='responses', trace_mod='ResponsesTrace', gen=responses_gen, rules={'OwnResponse': 'C09', 'Served': 'C13'}, level='model_checking',
                          assumptions=['three pair-verified reference controllers on real ip transports (six in one process) with attribute databases of 81 accessories; both kinds of response are about 5 MB, more than the kernel lets the server get rid of while the controller does not read (receive window of 4 KB from the handshake on, send buffer growing to 4 MB), so a controller that has sent its request and does not read keeps the server in the middle of the response',
                                       'every word is executed twice: with one processor (whatever a parked handler left in per-processor state is found by the next handler) and with all processors',
                                       'GET /accessories is encoded under the server mutex and written after it was released: several such responses are in flight at the same time, none waits for another controller to read'],
                          rule_text='all complete words of length 6 over Send / Receive of three controllers and two kinds of response (Responses.tla) in which some response is served while another is in flight, sampled by seed, plus the attack word of the guard buffer_owned_until_written; distinct = abstract word; non-trivial = all of them',
                          nontrivial=lambda b: True, sanity=sanity, extra_cov=extra)


# =====================================================================================================
# Reads from a connection that is not encrypted yet (PlainRead.tla): a further stage of C05
# =====================================================================================================

def plainread_gen(run):
    thorough = run.tier == 'thorough'
    run.model_check('PlainReadMC', 'PlainRead_MC.cfg', workers=2)
    groups = []
    total = 0
    attacks = []
    for bodies, sw, name in (([0, 2, 1], 2, 'BodiesA'), ([1, 0], 1, 'BodiesB'), ([0, 0, 0], 0, 'BodiesC')):
        cfg = 'CONSTANTS\n  Bodies <- %s\n  Switch = %d\n  Weak = %%s\nINIT GInit\nNEXT GNext\n%%s\nCHECK_DEADLOCK FALSE\n' % (name, sw)
        edge = dedupe_prefixes(run.generate('PlainReadGen', cfgtext=cfg % ('{}', 'INVARIANT EmitEdge\nVIEW EdgeView'), timeout=600))
        total += len(edge)
        if not thorough:
            edge = sample(edge, 150, run.seed)
        scen = dict(a='Scenario', n=0, bodies=bodies, switch=sw)
        groups.append(('edge:' + name, [[scen] + w for w in edge]))
        a = run.generate('PlainReadGen', cfgtext=cfg % ('{"one_request_at_a_time"}', 'INVARIANT NoAttack\nVIEW AttackView'), expect_violation=True)
        if not a:
            raise ToolTrouble('no attack word for guard one_request_at_a_time (%s)' % name)
        attacks.append([scen] + a[0])
    groups.append(('attack:one_request_at_a_time', attacks))
    return groups, dict(edge_words_enumerated=total, scenarios=3)


def plainread_family(run, replay=None):
    def sanity(lines, behs):
        if not any(x.get('a') == 'Abort' and x.get('err') == 'timeout' for x in lines):
            raise ToolTrouble('vacuous run: no blocked read was ever aborted')
        if not any(x.get('a') == 'ReadReturn' and x.get('ret', 0) > 0 for x in lines):
            raise ToolTrouble('vacuous run: no read returned data')

    def extra(lines, behs):
        return dict(reads_returned=sum(1 for x in lines if x.get('ret', -1) > 0), reads_aborted=sum(1 for x in lines if x.get('a') == 'Abort' and x.get('err') == 'timeout'),
                    reads_through_the_session=sum(1 for x in lines if x.get('a') == 'ReadSession'))
    return generic_family(run, replay, hcv='plainread', trace_mod='PlainReadTrace', gen=plainread_gen,
                          rules={'NoReadAhead': 'C05', 'ExactBytes': 'C05', 'Progress': 'C05'}, level='model_checking',
                          assumptions=['a real hap.Connection on a scripted socket, without a session; the HTTP server is replaced by the word: it reads, announces that a request is handled / answered (SetHandlingRequest, what http.ConnState does) and aborts a read (a deadline in the past, what net/http does when a handler returns)',
                                       'requests are POSTs with a Content-Length; the head arrives in two pieces cut inside the name of that header; line ends are CRLF or bare LF by seed',
                                       'a read is taken for blocked when it has not returned after 15 ms'],
                          rule_text='one word per (state, action) of PlainRead.tla for three request sequences (bodies 0/2/1 with the session installed by the second response, 1/0 with the first, 0/0/0 without), sampled by seed in quick, plus the attack words of the guard one_request_at_a_time; distinct = abstract word; non-trivial = contains a read',
                          nontrivial=lambda b: any(s.get('a') in ('ReadReturn', 'ReadCall') for s in b['steps']), sanity=sanity, extra_cov=extra,
                          fpfun=lambda rule, b, line: '%s/%s' % (rule, line.get('a')))


def with_e2e(base):
    return with_stage(base, e2e_family, 'e2e', 'end_to_end_part')


for _p in ('C01', 'C03', 'C10', 'C20'):
    REGISTRY[_p] = with_e2e(REGISTRY[_p])
REGISTRY['C09'] = with_stage(REGISTRY['C09'], responses_family, 'responses', 'concurrent_responses_part')
REGISTRY['C13'] = with_stage(REGISTRY['C13'], responses_family, 'responses', 'concurrent_responses_part')
REGISTRY['C05'] = with_stage(REGISTRY['C05'], plainread_family, 'plainread', 'reads_before_the_session_part')
