#!/usr/bin/env python3
"""Normalises /repo/gen/metadata.json into ndjson records (meta-char, meta-svc) in the canonical form the harness uses for
constructors. Shares no code with the Go generator in /repo/gen/golang."""
import json, sys, re


def short(uuid):
    return uuid.split('-')[0].lstrip('0')


def num(x):
    if x is None:
        return '', False
    if isinstance(x, bool):
        return str(x).lower(), True
    if isinstance(x, int):
        return str(x), True
    if isinstance(x, float):
        if x == int(x) and abs(x) < 1e15:
            return str(int(x)), True
        return repr(x), True
    return str(x), True


def main(path, out):
    m = json.load(open(path))
    lines = []
    for c in m['Characteristics']:
        props = c.get('Properties', [])
        perms = sorted(set({'read': 'pr', 'write': 'pw', 'cnotify': 'ev'}[p] for p in props if p in ('read', 'write', 'cnotify')))
        cons = c.get('Constraints', {}) or {}
        step = cons.get('StepValue', cons.get('stepValue'))
        mn, hasmin = num(cons.get('MinimumValue'))
        mx, hasmax = num(cons.get('MaximumValue'))
        st, hasstep = num(step)
        lines.append(dict(ev='meta-char', case=4, i=0, name=c['Name'], type=short(c['UUID']), format=c['Format'], perms=perms, unit=c.get('Unit') or '',
                          min=mn, max=mx, step=st, hasmin=hasmin, hasmax=hasmax, hasstep=hasstep))
    for s in m['Services']:
        lines.append(dict(ev='meta-svc', case=5, i=0, name=s['Name'], type=short(s['UUID']), required=[short(u) for u in s.get('RequiredCharacteristics', [])],
                          optional=[short(u) for u in s.get('OptionalCharacteristics', [])]))
    with open(out, 'w') as f:
        for x in lines:
            f.write(json.dumps(x) + '\n')
    print('metadata: %d characteristics, %d services' % (len(m['Characteristics']), len(m['Services'])))


if __name__ == '__main__':
    main(sys.argv[1], sys.argv[2])
