"""bin/check <Cxx> quick|thorough [--replay file]   -- driver of the TLA+ model-based checks (DESIGN.md section 2.2)

exit 0  the property held on everything explored (KNOWN-FINDING lines possible)
exit 1  at least one unlisted violation: 'VIOLATION property=<id> replay=<path>'
exit 2  tool / harness trouble, no verdict
"""
import sys, os, json, re, subprocess, tempfile, shutil, time, hashlib, signal, atexit

ROOT = os.path.dirname(os.path.dirname(os.path.abspath(__file__)))
SPECS = os.path.join(ROOT, 'specs')
JAR = '/opt/veriftools/tla/tla2tools.jar:/opt/veriftools/tla/CommunityModules-deps.jar'
GOENV = dict(GOFLAGS='-mod=mod', GOPROXY='off', GOSUMDB='off', GOTOOLCHAIN='local')


# the repository under test; VERIF_REPO is a development aid for background regression runs on a snapshot
REPO = os.environ.get('VERIF_REPO', '/repo')


class ToolTrouble(Exception):
    pass


def log(*a):
    print(*a, flush=True)


class Run:
    """One check run: scratch dir, TLC / harness invocations, counters for the evidence file."""

    def __init__(self, prop, tier, seed):
        self.prop, self.tier, self.seed = prop, tier, seed
        self.t0 = time.time()
        self.dir = tempfile.mkdtemp(prefix='hcv-%s-' % prop)
        atexit.register(self.cleanup)
        self.specdir = os.path.join(self.dir, 'specs')
        shutil.copytree(SPECS, self.specdir)
        self.tmp = os.path.join(self.dir, 'tmp')
        os.mkdir(self.tmp)
        self.n_tlc = 0
        self.mc = []          # (cfg, generated, distinct, depth)
        self.hcv = None
        self.notes = []
        self.stages = []

    def stage(self, name, t_start):
        self.stages.append((name, round(time.time() - t_start, 1)))
        if os.environ.get('VERIF_TIMING'):
            log('    [%5.1fs] %s' % (time.time() - t_start, name))

    def cleanup(self):
        if os.environ.get('VERIF_KEEP'):
            return
        shutil.rmtree(self.dir, ignore_errors=True)

    # ---- TLC
    def tlc(self, module, cfg, workers=4, timeout=600, env=None, extra=(), heap='4g', simulate=None, cfgtext=None):
        self.n_tlc += 1
        meta = os.path.join(self.dir, 'meta%d' % self.n_tlc)
        if cfgtext is not None:
            cfg = 'gen%d_%s' % (self.n_tlc, cfg)
            with open(os.path.join(self.specdir, cfg), 'w') as f:
                f.write(cfgtext)
        cmd = ['java', '-Xmx' + heap, '-Xss64m', '-XX:+UseParallelGC', '-Djava.io.tmpdir=' + self.tmp, '-cp', JAR, 'tlc2.TLC',
               '-workers', str(workers), '-metadir', meta, '-config', cfg]
        if simulate:
            cmd += ['-simulate', simulate]
        cmd += list(extra) + [module + '.tla']
        e = dict(os.environ)
        e.pop('JAVA_TOOL_OPTIONS', None)
        if env:
            e.update(env)
        out = os.path.join(self.dir, 'tlc%d.out' % self.n_tlc)
        t_start = time.time()
        with open(out, 'w') as fo:
            try:
                p = subprocess.run(cmd, cwd=self.specdir, env=e, stdout=fo, stderr=subprocess.STDOUT, timeout=timeout)
                rc = p.returncode
            except subprocess.TimeoutExpired:
                raise ToolTrouble('TLC timeout after %ds on %s' % (timeout, cfg))
        shutil.rmtree(meta, ignore_errors=True)
        text = open(out, errors='replace').read()
        self.stage('tlc:%s/%s' % (module, cfg), t_start)
        return rc, text

    def model_check(self, module, cfg, workers=8, timeout=900, cfgtext=None, heap='6g'):
        """Exhaustive check of the intended design. Any error here is a MODEL-ERROR (exit 2), never a verdict on hc."""
        rc, text = self.tlc(module, cfg, workers=workers, timeout=timeout, cfgtext=cfgtext, heap=heap)
        m = re.search(r'(\d+) states generated, (\d+) distinct states found', text)
        if rc != 0 or 'No error has been found' not in text or not m:
            tail = '\n'.join(text.splitlines()[-30:])
            raise ToolTrouble('MODEL-ERROR: design spec %s/%s did not pass TLC (rc=%d)\n%s' % (module, cfg, rc, tail))
        d = re.search(r'depth of the complete state graph search is (\d+)', text)
        rec = dict(module=module, cfg=cfg, generated=int(m.group(1)), distinct=int(m.group(2)), depth=int(d.group(1)) if d else 0)
        self.mc.append(rec)
        log('  MC %s %s: %d states generated, %d distinct, depth %s' % (module, cfg, rec['generated'], rec['distinct'], rec['depth']))
        return rec

    def generate(self, module, cfg=None, cfgtext=None, simulate=None, timeout=600, expect_violation=False, heap='4g', depth=None):
        """Run a generation configuration; return the list of behaviours (each a list of step dicts)."""
        extra = ['-depth', str(depth)] if depth else []
        if simulate:
            extra += ['-seed', str(self.seed)]
        rc, text = self.tlc(module, cfg or 'gen.cfg', workers=1, timeout=timeout, cfgtext=cfgtext, simulate=simulate, heap=heap, extra=extra)
        behs = []
        for line in text.splitlines():
            if line.startswith('<<"BEH", "'):
                s = line[len('<<"BEH", "'):]
                if not s.endswith('">>'):
                    raise ToolTrouble('unterminated BEH line')
                s = s[:-3]
                s = s.replace('\\"', '"').replace('\\\\', '\\')
                behs.append(json.loads(s))
        ok = ('No error has been found' in text) or (simulate is not None) or (expect_violation and 'is violated' in text)
        if 'Error:' in text and not expect_violation and 'No error has been found' not in text:
            # simulation mode ends without the "No error" banner; anything else with Error: is trouble
            bad = [l for l in text.splitlines() if l.startswith('Error:')]
            if bad and not (simulate and all('simulation' in b.lower() for b in bad)):
                raise ToolTrouble('TLC generation failed on %s: %s' % (module, bad[:3]))
        if not ok:
            tail = '\n'.join(text.splitlines()[-20:])
            raise ToolTrouble('TLC generation failed on %s (rc=%d)\n%s' % (module, rc, tail))
        return behs

    def validate(self, module, cfg, trace, timeout=900, cfgtext=None, heap='6g'):
        """Trace validation. Returns (violations [(rule, line, extra...)], accepted:bool, states)."""
        rc, text = self.tlc(module, cfg, workers=1, timeout=timeout, env={'TRACE': trace}, cfgtext=cfgtext, heap=heap)
        viol = []
        for line in text.splitlines():
            if line.startswith('<<"VIOL", '):
                parts = re.findall(r'"([^"]*)"|(-?\d+)', line)
                vals = [a if a != '' else int(b) for a, b in parts]
                viol.append(tuple(vals[1:]))
        accepted = 'No error has been found' in text
        if not accepted:
            tail = '\n'.join(text.splitlines()[-25:])
            raise ToolTrouble('trace rejected by %s (rc=%d): the recorded trace is not a behaviour of the trace spec\n%s' % (module, rc, tail))
        m = re.search(r'(\d+) states generated, (\d+) distinct states found', text)
        return viol, accepted, int(m.group(2)) if m else 0

    # ---- harness
    def build_harness(self, race=False):
        exe = os.path.join(self.dir, 'hcv-race' if race else 'hcv')
        e = dict(os.environ)
        e.update(GOENV)
        hdir = os.path.join(ROOT, 'harness')
        modflag = []
        if REPO == '/repo':
            try:
                # only when it differs, and atomically: another check may be building at the same time
                src = open('/repo/go.sum', 'rb').read()
                dst = os.path.join(hdir, 'go.sum')
                if not os.path.exists(dst) or open(dst, 'rb').read() != src:
                    tmp = '%s.%d.tmp' % (dst, os.getpid())
                    with open(tmp, 'wb') as f:
                        f.write(src)
                    os.replace(tmp, dst)
            except Exception:
                pass
        else:
            # development aid (VERIF_REPO): build against another copy of the repository through an alternative go.mod
            mod = open(os.path.join(hdir, 'go.mod')).read().replace('=> /repo', '=> ' + REPO)
            mf = os.path.join(self.dir, 'hcv.mod')
            with open(mf, 'w') as f:
                f.write(mod)
            shutil.copy(os.path.join(REPO, 'go.sum'), os.path.join(self.dir, 'hcv.sum'))
            modflag = ['-modfile=' + mf]
        g = subprocess.run([sys.executable, os.path.join(ROOT, 'bin', 'gencatalog.py')], stdout=subprocess.PIPE, stderr=subprocess.STDOUT)
        if g.returncode != 0:
            raise ToolTrouble('catalog generation failed: ' + g.stdout.decode(errors='replace')[-1500:])
        cmd = ['go', 'build', '-tags', 'verif'] + modflag + (['-race'] if race else []) + ['-o', exe, './cmd/hcv']
        t_start = time.time()
        p = subprocess.run(cmd, cwd=hdir, env=e, stdout=subprocess.PIPE, stderr=subprocess.STDOUT, timeout=900)
        if p.returncode != 0:
            raise ToolTrouble('harness does not build against /repo:\n' + p.stdout.decode(errors='replace')[-3000:])
        if not race:
            self.hcv = exe
        self.stage('go build', t_start)
        return exe

    def harness(self, family, args, timeout=3000, exe=None):
        e = dict(os.environ)
        e.update(GOENV)
        e['TMPDIR'] = self.tmp
        cmd = [exe or self.hcv, family] + [str(a) for a in args]
        t_start = time.time()
        try:
            p = subprocess.run(cmd, env=e, cwd=self.dir, stdout=subprocess.PIPE, stderr=subprocess.STDOUT, timeout=timeout)
        except subprocess.TimeoutExpired:
            raise ToolTrouble('harness timeout: ' + ' '.join(cmd))
        out = p.stdout.decode(errors='replace')
        if p.returncode != 0:
            raise ToolTrouble('harness %s failed rc=%d:\n%s' % (family, p.returncode, out[-3000:]))
        self.stage('harness:%s' % family, t_start)
        return out


# ---------------------------------------------------------------- behaviours, fingerprints, findings

DROP_KEYS = {'exp', 'pre', 'post', 'store', 'want'}


def canon_word(steps):
    """Canonical abstract word: expectation fields dropped, connection names normalised by first use."""
    ren = {}
    out = []
    for s in steps:
        parts = []
        for k in sorted(s):
            if k in DROP_KEYS:
                continue
            v = s[k]
            if k in ('c', 'w', 'conn') and isinstance(v, str):
                base = re.sub(r'\d+$', '', v)
                if v not in ren:
                    ren[v] = base + str(1 + sum(1 for x in ren if re.sub(r'\d+$', '', x) == base))
                v = ren[v]
            if v in ('none', None):
                continue
            parts.append('%s=%s' % (k, json.dumps(v, sort_keys=True, separators=(',', ':')) if not isinstance(v, str) else v))
        out.append(','.join(parts))
    return ';'.join(out)


def fingerprint(rule, steps, upto=None):
    w = canon_word(steps if upto is None else steps[:upto])
    return '%s/%s' % (rule, w)


def conn_class(v):
    return re.sub(r'\d+$', '', v) if isinstance(v, str) else v


def step_fingerprint(rule, b, line):
    """Default fingerprint: the rule plus the abstract step at which it failed (connection names reduced to their class).
    For end-of-case lines (probe ...) the last step on the same connection identifies the case."""
    steps = b['steps']
    i = line.get('i')
    st = None
    if line.get('ev') not in ('probe', 'final') and isinstance(i, int) and 0 <= i < len(steps):
        st = steps[i]
    else:
        c = line.get('c')
        for s in reversed(steps):
            if s.get('c') == c:
                st = s
                break
    if st is None:
        return '%s/%s' % (rule, line.get('ev'))
    parts = []
    for k in sorted(st):
        if k in DROP_KEYS or st[k] in ('none', None):
            continue
        v = st[k]
        if k in ('c', 'w', 'conn'):
            v = conn_class(v)
        parts.append('%s=%s' % (k, v if isinstance(v, str) else json.dumps(v, sort_keys=True, separators=(',', ':'))))
    tag = '@' + str(line.get('ev')) if line.get('ev') in ('probe', 'final') else ''
    return '%s/%s%s' % (rule, ','.join(parts), tag)


def load_known(prop):
    path = os.path.join(ROOT, 'KNOWN_FINDINGS.txt')
    known = {}
    if os.path.exists(path):
        for line in open(path):
            line = line.strip()
            m = re.match(r'finding: property=(\S+) fp=(\S+)\s*(.*)', line)
            if m and m.group(1) == prop:
                known[m.group(2)] = m.group(3)
    return known


def dedupe_prefixes(words):
    """Keep only words that are not a proper prefix of another word (edge mode prints every prefix)."""
    keys = sorted(set(json.dumps(w, sort_keys=True) for w in words))
    ws = [json.loads(k) for k in keys]
    seen = set()
    for w in ws:
        for i in range(1, len(w)):
            seen.add(json.dumps(w[:i], sort_keys=True))
    return [w for w in ws if json.dumps(w, sort_keys=True) not in seen]


def write_behs(path, groups):
    """groups: list of (kind, [words]) -> ndjson with ids; returns list of beh dicts."""
    out = []
    n = 0
    with open(path, 'w') as f:
        for kind, words in groups:
            for w in words:
                n += 1
                b = dict(id=n, kind=kind, steps=w)
                out.append(b)
                f.write(json.dumps(b) + '\n')
    return out


def read_ndjson(path):
    out = []
    with open(path) as f:
        for line in f:
            line = line.strip()
            if line:
                out.append(json.loads(line))
    return out


def sample(lst, k, seed):
    import random
    if len(lst) <= k:
        return list(lst)
    r = random.Random(seed)
    return r.sample(lst, k)


# ---------------------------------------------------------------- verdict and evidence

def finish(run, level, rule_owner, behs, trace_lines, viols, coverage, assumptions, replay_family, replay_extra=None, confirm=None, fpfun=None,
           confirm_batch=None, batch_file=None):
    """Common tail: map violations to cases, fingerprints, known findings, replay files, evidence, exit code.
    viols: list of (rule, line_no(1-based), ...) from the trace spec.  rule_owner: rule -> property id (None = any).
    confirm(b, rule[, line]): re-executes one case alone.  confirm_batch() -> (viols, trace_lines) re-executes the whole
    batch: a violation that needs what OTHER cases leave behind in the process (state shared across connections or
    transports) does not show when its case runs alone, but it must show again with the same fingerprint in the batch."""
    prop = run.prop
    known = load_known(prop)
    byid = {b['id']: b for b in behs}

    def collect(vs, tlines):
        out, other = [], 0
        for v in vs:
            rule, ln = v[0], v[1]
            if rule_owner.get(rule, prop) != prop:
                other += 1
                continue
            line = tlines[ln - 1]
            case = line.get('case')
            b = byid.get(case)
            if b is None:
                raise ToolTrouble('violation at trace line %d refers to unknown case %r' % (ln, case))
            fp = (fpfun or step_fingerprint)(rule, b, line)
            out.append((fp, rule, b, line))
        return out, other

    mine, other = collect(viols, trace_lines)
    # one report per fingerprint: the shortest failing case stands for it
    seen = {}
    for fp, rule, b, line in mine:
        if fp not in seen or len(b['steps']) < len(seen[fp][1]['steps']):
            seen[fp] = (rule, b, line)
    new = []
    knownhit = []
    for fp, (rule, b, line) in sorted(seen.items()):
        if fp in known:
            knownhit.append((fp, known[fp]))
        else:
            new.append((fp, rule, b, line))
    confirmed = []
    in_batch = False
    if new and confirm is not None:
        t_confirm = time.time()
        later = []
        for fp, rule, b, line in new[:12]:
            import inspect
            if confirmed and time.time() - t_confirm > 120:
                # re-execution is slow on this tree (a server that stopped answering makes every case wait for its timeouts):
                # one fingerprint has been reproduced, the others are reported as they were observed
                later.append((fp, rule, b, line))
                continue
            okc = confirm(b, rule, line) if len(inspect.signature(confirm).parameters) >= 3 else confirm(b, rule)
            if okc:
                confirmed.append((fp, rule, b, line))
            else:
                run.notes.append('unreproduced when run alone: %s' % fp)
        if later:
            run.notes.append('%d further fingerprints were observed in the same run and not re-executed one by one (time)' % len(later))
            confirmed += later
        if not confirmed and new:
            again = set()
            if confirm_batch is not None:
                v2, l2 = confirm_batch()
                again = set(x[0] for x in collect(v2, l2)[0])
            both = [n for n in new if n[0] in again]
            if not both:
                raise ToolTrouble('violations did not reproduce on re-execution: %s' % [n[0] for n in new[:5]])
            run.notes.append('reproduced only when the whole batch is executed again (depends on what other cases leave behind in the process): %d fingerprints' % len(both))
            new, in_batch = both, True
        else:
            new = confirmed + new[12:]
    for fp, what in knownhit:
        log('KNOWN-FINDING: property=%s %s (%s)' % (prop, what, fp))
    os.makedirs(os.path.join(ROOT, 'replays'), exist_ok=True)
    stored_batch = None
    if in_batch and batch_file and os.path.exists(batch_file) and os.path.getsize(batch_file) < 40 * 1024 * 1024:
        stored_batch = os.path.join(ROOT, 'replays', '%s-batch-%s-%d.ndjson' % (prop, run.tier, run.seed))
        shutil.copyfile(batch_file, stored_batch)
    for fp, rule, b, line in new:
        h = hashlib.sha1(fp.encode()).hexdigest()[:12]
        path = os.path.join(ROOT, 'replays', '%s-%s.json' % (prop, h))
        rec = dict(property=prop, family=replay_family, rule=rule, fingerprint=fp, seed=run.seed, tier=run.tier,
                   behaviour=b, observed=line, extra=replay_extra)
        if in_batch:
            rec['context'] = 'batch'
            rec['batch_file'] = stored_batch
        with open(path, 'w') as f:
            json.dump(rec, f, indent=1)
        log('VIOLATION property=%s replay=%s' % (prop, path))
        log('  rule=%s fingerprint=%s%s' % (rule, fp[:300], ' (in the batch only)' if in_batch else ''))
    coverage = dict(coverage)
    coverage.setdefault('violations_other_properties_ignored', other)
    coverage['known_findings_hit'] = len(knownhit)
    coverage['violating_cases'] = len(mine)
    if run.notes:
        coverage['notes'] = run.notes[:20]
    write_evidence(run, level, coverage, assumptions, len(new))
    return 1 if new else 0


def write_evidence(run, level, coverage, assumptions, nviol):
    ev = dict(property_id=run.prop, tier=run.tier, seed=run.seed, level=level, coverage=coverage,
              assumptions=assumptions, wall_s=round(time.time() - run.t0, 2), violations=nviol)
    os.makedirs(os.path.join(ROOT, 'evidence'), exist_ok=True)
    tmp = os.path.join(ROOT, 'evidence', '.%s.json.tmp' % run.prop)
    with open(tmp, 'w') as f:
        json.dump(ev, f, indent=1)
    os.replace(tmp, os.path.join(ROOT, 'evidence', '%s.json' % run.prop))


def mc_summary(run):
    return dict(states=sum(m['distinct'] for m in run.mc), transitions=sum(m['generated'] for m in run.mc), model_runs=run.mc)


