---------------------------- MODULE CharStackTrace ----------------------------
(* Monitor for C09 and C11 (HTTP side): operations on one characteristic of a real server, seen by the application and by a
   pair-verified controller.  Ghost: the token of the current value, whether the controller is subscribed.
   Value tokens: the harness reports, for every value it observes, the list of tokens whose concrete value it equals. *)
EXTENDS Naturals, Sequences, FiniteSets, TLC, Json, IOUtils
VARIABLES l, cur, subscribed
Trace == ndJsonDeserialize(IOEnv.TRACE)
SetOf(s) == {s[i] : i \in 1..Len(s)}
Report(rule, ok) == IF ok THEN TRUE ELSE PrintT(<<"VIOL", rule, l>>)
Init == l = 1 /\ cur = "v0" /\ subscribed = FALSE
NoErr(e) == ~e.hasstatus \/ e.status = 0
Good(k) == k \in {"e1", "e2"}
Op(e) ==
  LET perms == SetOf(e.perms)
      R == "pr" \in perms
      W == "pw" \in perms
      E == "ev" \in perms IN
  CASE e.a = "LocalSet" ->
         /\ Report("NoPanic", ~e.panic)
         /\ Report("NoEventsWithoutEv", ~E => e.events = 0)
         /\ cur' = e.tok /\ UNCHANGED subscribed
    [] e.a = "RemoteWrite" ->
         /\ Report("WriteReachesApp", W => (e.http \in {200, 204, 207} /\ NoErr(e)))
         /\ Report("WriteReachesApp", (W /\ R) => e.tok \in SetOf(e.apptoks))
         /\ Report("WriteReachesApp", (W /\ ~e.samebefore) => (e.cbn >= 1 /\ e.tok \in SetOf(e.cbtoks)))
         /\ Report("NoWriteWithoutPw", ~W => (e.cbn = 0 /\ (R => cur \in SetOf(e.apptoks))))
         /\ Report("NoValueWithoutPr", ~R => e.appnil)
         \* a write that is not carried out is answered with an error status, not with a success
         /\ Report("ShapeRule", ~W => (e.http # 204 /\ e.hasstatus /\ e.status # 0))
         /\ cur' = (IF W THEN e.tok ELSE cur) /\ UNCHANGED subscribed
    [] e.a = "RemoteWriteSub" ->      \* one entry with a value and ev = true: each half is decided by its own permission
         /\ Report("WriteReachesApp", (W /\ R) => e.tok \in SetOf(e.apptoks))
         /\ Report("NoWriteWithoutPw", ~W => (e.cbn = 0 /\ (R => cur \in SetOf(e.apptoks))))
         /\ Report("ShapeRule", (~W \/ ~E) => (e.http # 204 /\ e.hasstatus /\ e.status # 0))
         /\ Report("ShapeRule", (W /\ E) => (e.http \in {200, 204, 207} /\ NoErr(e)))
         /\ cur' = (IF W THEN e.tok ELSE cur) /\ subscribed' = E
    [] e.a = "PanickyWrite" ->      \* the application's callback panicked (when it was called): the value is stored, the connection new
         /\ Report("WriteReachesApp", (W /\ R) => e.tok \in SetOf(e.apptoks))
         /\ Report("NoWriteWithoutPw", ~W => (~e.dropped /\ (R => cur \in SetOf(e.apptoks))))
         /\ cur' = (IF W THEN e.tok ELSE cur) /\ subscribed' = (IF e.dropped THEN FALSE ELSE subscribed)
    [] e.a = "RemoteRead" ->
         /\ Report("ReadsSeeLastWrite", R => (e.http = 200 /\ e.n = 1 /\ e.hasvalue /\ cur \in SetOf(e.rtoks)))
         /\ Report("NoValueWithoutPr", ~R => ~e.hasvalue)
         /\ Report("ShapeRule", ~R => (e.n = 1 /\ e.status # 0))        \* a value or an error status
         /\ UNCHANGED <<cur, subscribed>>
    [] e.a = "GetterRead" ->       \* the value comes from the application's getter at the moment of the read
         /\ Report("ReadsSeeLastWrite", R => (e.http = 200 /\ e.n = 1 /\ e.hasvalue /\ e.tok \in SetOf(e.rtoks) /\ e.tok \in SetOf(e.apptoks)))
         /\ Report("NoValueWithoutPr", ~R => (~e.hasvalue /\ e.appnil))
         /\ Report("ShapeRule", ~R => (e.n = 1 /\ e.status # 0))
         /\ cur' = (IF R THEN e.tok ELSE cur) /\ UNCHANGED subscribed
    [] e.a = "AccRead" ->
         /\ Report("ReadsSeeLastWrite", e.http = 200 /\ e.n = 1 /\ (R => (e.hasvalue /\ cur \in SetOf(e.rtoks))))
         /\ Report("NoValueWithoutPr", ~R => ~e.hasvalue)
         /\ UNCHANGED <<cur, subscribed>>
    [] e.a = "Sub" ->
         /\ Report("SubRefused", ~E => (e.hasstatus /\ e.status # 0))
         /\ Report("SubAccepted", E => NoErr(e))
         /\ subscribed' = E /\ UNCHANGED cur
    [] e.a = "Unsub" -> subscribed' = FALSE /\ UNCHANGED cur
    \* subscribing to the twin (same instance id, another accessory) is about the twin only
    [] e.a \in {"SubTwin", "UnsubTwin"} -> UNCHANGED <<cur, subscribed>>
    [] OTHER -> UNCHANGED <<cur, subscribed>>
List(e) ==
  /\ Report("ShapeRule", e.n = Len(e.kinds) /\ e.idsok)
  /\ Report("ShapeRule", e.n = Len(e.kinds) =>
        /\ \A i \in 1..e.n : IF Good(e.kinds[i]) THEN e.values[i] ELSE (~e.values[i] /\ e.statuses[i] /\ ~e.zero[i])
        /\ (e.http = 207 => \A i \in 1..e.n : e.statuses[i])
        /\ (e.http = 200 <=> \A i \in 1..e.n : Good(e.kinds[i]))
        /\ e.http \in {200, 207})
  /\ UNCHANGED <<cur, subscribed>>
\* a list write: 204 (or all statuses 0) iff every entry was written; otherwise one entry per requested id, in order, each
\* with a status: 0 for the entries that were written, an error for the others; written entries reach the application, the
\* others change nothing
WGood(k) == k \in {"w1", "w2"}
WList(e) ==
  LET allgood == \A i \in 1..Len(e.kinds) : WGood(e.kinds[i]) IN
  /\ Report("ShapeRule", allgood => (e.http \in {200, 204, 207} /\ (e.n = 0 \/ (e.n = Len(e.kinds) /\ e.idsok /\ \A i \in 1..e.n : (~e.statuses[i] \/ e.zero[i])))))
  /\ Report("ShapeRule", ~allgood => (/\ e.http \in {200, 207} /\ e.n = Len(e.kinds) /\ e.idsok
                                       /\ \A i \in 1..e.n : e.statuses[i] /\ (e.zero[i] <=> WGood(e.kinds[i]))))
  /\ Report("WriteReachesApp", \A i \in 1..Len(e.kinds) : WGood(e.kinds[i]) => e.applied[i])
  /\ Report("NoWriteWithoutPw", \A i \in 1..Len(e.kinds) : e.kinds[i] = "ro" => ~e.applied[i])
  /\ UNCHANGED <<cur, subscribed>>
Next ==
  /\ l <= Len(Trace)
  /\ LET e == Trace[l] IN
     IF e.ev = "reset" THEN cur' = "v0" /\ subscribed' = FALSE
     ELSE IF e.ev = "list" THEN List(e) ELSE IF e.ev = "wlist" THEN WList(e) ELSE Op(e)
  /\ l' = l + 1
Accepted == TLCGet("stats").diameter = Len(Trace) + 1
=======================================================================
