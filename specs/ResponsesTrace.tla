---------------------------- MODULE ResponsesTrace ----------------------------
(* Monitor for Responses.tla: one line per Send / Receive of a controller on a real transport.  A Receive line says whether
   the complete response was well-formed JSON carrying, for every accessory, exactly the values the application had set. *)
EXTENDS Naturals, Sequences, FiniteSets, TLC, Json, IOUtils
VARIABLES l, outstanding
Trace == ndJsonDeserialize(IOEnv.TRACE)
Report(rule, ok) == IF ok THEN TRUE ELSE PrintT(<<"VIOL", rule, l>>)
Init == l = 1 /\ outstanding = {}
Next == /\ l <= Len(Trace)
        /\ LET e == Trace[l] IN
           IF e.ev = "reset" THEN outstanding' = {}
           ELSE IF e.a \in {"Event", "KeepAlive"} THEN outstanding' = outstanding
           ELSE IF e.a = "Send" THEN outstanding' = outstanding \cup {e.c}
           ELSE /\ Report("OwnResponse", e.c \in outstanding => (e.ok \/ e.starved))
                \* a response does not wait for another controller to read its own (C13: the accessory keeps serving)
                /\ Report("Served", e.c \in outstanding => ~e.starved)
                /\ outstanding' = outstanding \ {e.c}
        /\ l' = l + 1
Accepted == TLCGet("stats").diameter = Len(Trace) + 1
=======================================================================
