SPECIFICATION Spec
CONSTANTS
  Formats = {"bool", "int", "float", "string"}
  PermSets <- PermSetsDef
  Bounds <- BoundsDef
  Weak = {}
INVARIANTS TypeOK NoPanic NoValueWithoutPr NoEventsWithoutEv
PROPERTIES NoWriteWithoutPw
VIEW View
CHECK_DEADLOCK FALSE
