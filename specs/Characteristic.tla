---------------------------- MODULE Characteristic ----------------------------
(* Design specification of one characteristic value cell: conversion, clamping, same-value suppression, permissions,
   callbacks, subscription, typed getter.
   C12  A characteristic's value always has its declared type and range
   C11  Read, write and event permissions are enforced for remote peers
   (and the cell semantics behind C09)
   Code anchors: characteristic/characteristic.go:121-151 (updateValue), :165-208 (clamp, convert), typed getters in
   int.go / float.go / string.go / bool.go / bytes.go, hap/http/characteristics.go:135-141 (ev subscription).
   A guard in Weak is MISSING; Weak = {} is the intended design. *)
\* characteristic/characteristic.go:121-151 (updateValue), :165-208 (clamp, convert), typed getters
\* in int.go/float.go/string.go/bool.go; one value cell with a format, bounds and permissions.
EXTENDS Integers, Sequences, FiniteSets, TLC
CONSTANTS Formats,    \* subset of {"bool","int","float","string"}  (uint8..uint64,int32 -> "int"; string,tlv8,data -> "string")
          PermSets,   \* set of subsets of {"pr","pw","ev"}
          Bounds,     \* set of <<min, max>> on the abstract scale: <<0, 1>> = declared bounds, <<-2, 3>> = none declared
          Weak
VARIABLES Format, Perms, Min, Max,      \* the cell's configuration, chosen in Init; the range can be declared anew (Rebound)
          val, cbRemote, cbLocal, subscribed, out, act
vars == <<Format, Perms, Min, Max, val, cbRemote, cbLocal, subscribed, out, act>>
cfg == <<Format, Perms, Min, Max>>
Guard(g) == g \notin Weak

\* JSON value classes a peer or the application can supply; magnitudes on an abstract scale
\*   -2 far below min, -1 below min, 0 in range (low), 1 in range (high), 2 above max, 3 astronomically large
Classes == {"null", "true", "false", "num_m2", "num_m1", "num_0", "num_1", "num_2", "num_3",
            "frac", "numstr", "str", "emptystr", "array", "object"}
Composite(c) == c \in {"array", "object"}
Mag(c) == CASE c = "num_m2" -> -2 [] c = "num_m1" -> -1 [] c = "num_0" -> 0 [] c = "num_1" -> 1
            [] c = "num_2" -> 2 [] c = "num_3" -> 3 [] c = "true" -> 1 [] c = "numstr" -> 1 [] c = "frac" -> 0 [] OTHER -> 0
Clamp(m) == IF m > Max THEN Max ELSE IF m < Min THEN Min ELSE m

\* stored values: [t |-> dynamic type, m |-> magnitude or token]
Nil == [t |-> "nil", m |-> 0]
Convert(c) ==
  CASE Format = "bool"   -> [t |-> "bool", m |-> IF c \in {"true", "num_1", "numstr"} THEN 1 ELSE 0]
    [] Format = "int"    -> [t |-> "int", m |-> Clamp(Mag(c))]
    [] Format = "float"  -> [t |-> "float", m |-> Clamp(Mag(c))]
    [] Format = "string" -> IF c \in {"str", "emptystr", "numstr"} \/ Guard("string_formats_converted")
                            THEN [t |-> "string", m |-> IF c = "emptystr" THEN 0 ELSE 1]
                            ELSE [t |-> c, m |-> 1]                \* code: value stored as it came

Init == /\ Format \in Formats /\ Perms \in PermSets /\ \E b \in Bounds : Min = b[1] /\ Max = b[2]
        /\ val = (IF "pr" \in Perms THEN Convert(IF Format = "string" THEN "emptystr" ELSE "num_0") ELSE Nil)
        /\ cbRemote = 0 /\ cbLocal = 0 /\ subscribed = FALSE /\ out = "none" /\ act = [a |-> "none", cls |-> "none", remote |-> FALSE]

Update(c, remote) ==
  /\ act' = [a |-> "Update", cls |-> c, remote |-> remote] /\ UNCHANGED cfg
  /\ LET v == Convert(c) IN
       IF Composite(v.t) /\ val.t = v.t /\ ~Guard("compare_is_total")
       THEN out' = "panic" /\ UNCHANGED <<val, cbRemote, cbLocal, subscribed>>     \* c.Value == value on uncomparable types
       ELSE IF v = val THEN out' = "same" /\ UNCHANGED <<val, cbRemote, cbLocal, subscribed>>
       ELSE IF remote /\ "pw" \notin Perms /\ Guard("write_needs_pw")
       THEN out' = "ignored" /\ UNCHANGED <<val, cbRemote, cbLocal, subscribed>>
       ELSE /\ val' = IF "pr" \in Perms \/ ~Guard("store_needs_pr") THEN v ELSE val
            /\ cbRemote' = IF remote /\ cbRemote < 2 THEN cbRemote + 1 ELSE cbRemote
            /\ cbLocal' = IF ~remote /\ cbLocal < 2 THEN cbLocal + 1 ELSE cbLocal
            /\ out' = "changed" /\ UNCHANGED subscribed

\* The application may install a value getter (OnValueGet); every read, by a connection or by the application, first stores
\* what the getter returns: same conversion and clamping, no permission check (it is the application's value), callbacks
\* of the remote kind when a connection reads.  characteristic.go:109-114
GetterRead(c, remote) ==
  /\ act' = [a |-> "GetterRead", cls |-> c, remote |-> remote] /\ UNCHANGED cfg
  /\ LET v == Convert(c) IN
       IF Composite(v.t) /\ val.t = v.t /\ ~Guard("compare_is_total")
       THEN out' = "panic" /\ UNCHANGED <<val, cbRemote, cbLocal, subscribed>>
       ELSE IF v = val THEN out' = "same" /\ UNCHANGED <<val, cbRemote, cbLocal, subscribed>>
       ELSE /\ val' = IF "pr" \in Perms \/ ~Guard("store_needs_pr") THEN v ELSE val
            /\ cbRemote' = IF remote /\ cbRemote < 2 THEN cbRemote + 1 ELSE cbRemote
            /\ cbLocal' = IF ~remote /\ cbLocal < 2 THEN cbLocal + 1 ELSE cbLocal
            /\ out' = "changed" /\ UNCHANGED subscribed

\* The application declares another range (SetMinValue / SetMaxValue) while the cell holds a value: the value is limited
\* by the new range at once (guard value_limited_when_range_changes), otherwise it stays outside until the next update.
Rebound(b) ==
  /\ act' = [a |-> "Rebound", cls |-> (IF b[1] = 0 THEN "narrow" ELSE "wide"), remote |-> FALSE]
  /\ Min' = b[1] /\ Max' = b[2] /\ UNCHANGED <<Format, Perms>>
  /\ LET lim(m) == IF m > b[2] THEN b[2] ELSE IF m < b[1] THEN b[1] ELSE m IN
     val' = IF val.t \in {"int", "float"} /\ Guard("value_limited_when_range_changes") THEN [val EXCEPT !.m = lim(@)] ELSE val
  /\ out' = "rebound" /\ UNCHANGED <<cbRemote, cbLocal, subscribed>>

Subscribe == /\ act' = [a |-> "Subscribe", cls |-> "none", remote |-> TRUE] /\ UNCHANGED cfg
             /\ subscribed' = ("ev" \in Perms \/ ~Guard("subscribe_needs_ev"))
             /\ out' = IF subscribed' THEN "sub_ok" ELSE "sub_refused"
             /\ UNCHANGED <<val, cbRemote, cbLocal>>
TypedGet == /\ act' = [a |-> "TypedGet", cls |-> "none", remote |-> FALSE] /\ UNCHANGED cfg
            /\ out' = IF val.t \in {Format, "nil"} THEN "get_ok" ELSE "panic"    \* c.Value.(string) etc.
            /\ UNCHANGED <<val, cbRemote, cbLocal, subscribed>>

Next == \/ \E c \in Classes, r \in BOOLEAN : Update(c, r) \/ GetterRead(c, r)
        \/ Subscribe \/ TypedGet
        \/ \E b \in Bounds : Rebound(b)
Spec == Init /\ [][Next]_vars

\* ---- C12
TypeOK == val.t \in {Format, "nil"} /\ (val.t \in {"int", "float"} => val.m >= Min /\ val.m <= Max)
NoPanic == out # "panic"
\* ---- C11
NoWriteWithoutPw == [][ (act'.a = "Update" /\ "pw" \notin Perms /\ cbRemote' # cbRemote) => FALSE ]_vars
NoValueWithoutPr == "pr" \notin Perms => val = Nil
NoEventsWithoutEv == "ev" \notin Perms => ~subscribed
View == <<cfg, val, cbRemote, cbLocal, subscribed, out>>
=======================================================================
