---------------------------- MODULE ResponsesGen ----------------------------
EXTENDS Responses, Json
VARIABLES hist, bad
GInit == Init /\ hist = <<>> /\ bad = FALSE
\* internal Write steps are not part of a word: the server writes as far as the socket lets it
GNext == /\ Next
         /\ hist' = IF last'.a = "Write" THEN hist ELSE Append(hist, [a |-> last'.a, c |-> last'.c, k |-> last'.k])
         /\ bad' = (bad \/ ~OwnResponse')
MaxLen == 6
WordBound == Len(hist) <= MaxLen
\* complete words only: nothing outstanding at the end
EmitWord == (Len(hist) = MaxLen /\ \A c \in Ctrl : out[c] = "idle") => PrintT(<<"BEH", ToJson(hist)>>)
NoAttack == IF bad THEN ~PrintT(<<"BEH", ToJson(hist)>>) ELSE TRUE
AttackView == <<out, buf, owner, sent, tags, cut, bigq, bad>>
=======================================================================
