---------------------------- MODULE SecureChannelGen ----------------------------
EXTENDS SecureChannel, Json
\* every initial state IS an adversary stream: print each once (run with CONSTRAINT OnlyInit)
EmitInit == pos = 1 => PrintT(<<"BEH", ToJson(wire)>>)
OnlyInit == pos = 1
NoAttack == IF ~(PrefixRule /\ DetectRule) THEN ~PrintT(<<"BEH", ToJson(wire)>>) ELSE TRUE
=======================================================================
