---------------------------- MODULE NotifyGen ----------------------------
EXTENDS Notify, Json
VARIABLES hist, bad
HInit == GInit /\ hist = <<>> /\ bad = FALSE
Used(c) == \E i \in 1..Len(hist) : hist[i].c = c
Rec(l, g) == [a |-> l[1], c |-> IF Len(l) >= 2 THEN l[2] ELSE "none",
              ch |-> IF Len(l) >= 3 THEN l[3] ELSE "none", v |-> IF Len(l) >= 4 THEN l[4] ELSE 0,
              exp |-> [c \in Conn |-> Cardinality(g[c])]]
HNext == /\ GNext
         /\ (last'[2] = "c2" => Used("c1")) /\ (last'[2] = "c3" => Used("c2"))
         /\ hist' = Append(hist, Rec(last', got'))
         /\ bad' = (bad \/ ~ExactlyOnceStep)
MaxLen == 3
WordBound == Len(hist) <= MaxLen
EmitWord == Len(hist) = MaxLen => PrintT(<<"BEH", ToJson(hist)>>)
EmitEdge == Len(hist) > 0 => PrintT(<<"BEH", ToJson(hist)>>)
EdgeView == <<View, last>>
SimLen == 10
EmitSim == (Len(hist) = SimLen + 1 /\ hist[SimLen + 1].a = "Local" /\ hist[SimLen + 1].ch = "x" /\ hist[SimLen + 1].v = 0)
             => PrintT(<<"BEH", ToJson(SubSeq(hist, 1, SimLen))>>)
NoAttack == IF bad THEN ~PrintT(<<"BEH", ToJson(hist)>>) ELSE TRUE
AttackView == <<View, bad>>
=======================================================================
