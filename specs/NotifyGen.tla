---------------------------- MODULE NotifyGen ----------------------------
EXTENDS Notify, Json
VARIABLES hist, bad, pre

\* Generation only: what each connection last SAW per characteristic (2 = nothing yet).  An implementation that
\* remembers what it sent (de-duplication, caching) has exactly this hidden state; putting it into the generation view
\* makes "one word per transition" cover, e.g., "the value returns to what the last event carried after a change the
\* connection did not see".
VARIABLE seen
SeenInit == seen = [c \in Conn |-> [ch \in Char |-> 2]]
SeenNext == seen' = [c \in Conn |-> [ch \in Char |->
                       IF last'[1] \in {"Connect", "Close"} /\ last'[2] = c THEN 2
                       ELSE IF \E i \in 1..Len(got'[c]) : got'[c][i][1] = ch
                            THEN got'[c][CHOOSE i \in 1..Len(got'[c]) : got'[c][i][1] = ch /\ \A j \in (i + 1)..Len(got'[c]) : got'[c][j][1] # ch][2]
                       ELSE seen[c][ch]]]
SeenView == <<open, subs, val, want, seen>>

HInit == GInit /\ SeenInit /\ hist = <<>> /\ bad = FALSE /\ pre = <<>>
Used(c) == \E i \in 1..Len(hist) : hist[i].c = c
Rec(l, g) == [a |-> l[1], c |-> IF Len(l) >= 2 THEN l[2] ELSE "none",
              ch |-> IF Len(l) >= 3 THEN l[3] ELSE "none", v |-> IF Len(l) >= 4 THEN l[4] ELSE 0,
              exp |-> [c \in Conn |-> Len(g[c])]]
\* the racing pair of writes is replayed by a dedicated history (two goroutines), not as a step of the generated words
HNext == /\ GNext /\ SeenNext /\ pre' = SeenView /\ last'[1] # "RemoteRace"
         /\ (last'[2] = "c2" => Used("c1")) /\ (last'[2] = "c3" => Used("c2"))
         /\ hist' = Append(hist, Rec(last', got'))
         /\ bad' = (bad \/ ~ExactlyOnceStep)
MaxLen == 3
WordBound == Len(hist) <= MaxLen
EmitWord == Len(hist) = MaxLen => PrintT(<<"BEH", ToJson(hist)>>)
EmitEdge == Len(hist) > 0 => PrintT(<<"BEH", ToJson(hist)>>)
EdgeView == <<View, last>>
\* a true transition: the state BEFORE the action (including what each connection last saw) and the action
SeenEdgeView == <<pre, last>>
SimLen == 10
EmitSim == (Len(hist) = SimLen + 1 /\ hist[SimLen + 1].a = "Local" /\ hist[SimLen + 1].ch = "x" /\ hist[SimLen + 1].v = 0)
             => PrintT(<<"BEH", ToJson(SubSeq(hist, 1, SimLen))>>)
NoAttack == IF bad THEN ~PrintT(<<"BEH", ToJson(hist)>>) ELSE TRUE
AttackView == <<View, bad>>
=======================================================================
