---------------------------- MODULE AccessTrace ----------------------------
(* Monitor for C01 and C03: replays an ndjson trace recorded from the real transport (harness family "access").
   Ghost state is computed from what was sent and what was observed only; the rules are the property predicates of
   Access.tla evaluated on OBSERVED values.  Line kinds:
     reset  start of a case: observable baseline (val, cb, subs, store)
     step   one abstract action and what the server did
     probe  end of a case: which mode the server is in for a connection, EVENTs it received after a local change *)
EXTENDS Naturals, Sequences, FiniteSets, TLC, Json, IOUtils

VARIABLES l, verified, val, cb, subs, store, sok
tvars == <<l, verified, val, cb, subs, store, sok>>

Trace == ndJsonDeserialize(IOEnv.TRACE)
SetOf(s) == {s[i] : i \in 1..Len(s)}
Report(rule, ok) == IF ok THEN TRUE ELSE PrintT(<<"VIOL", rule, l>>)

Init == l = 1 /\ verified = {} /\ val = 0 /\ cb = 0 /\ subs = {} /\ store = {} /\ sok = {}

Reset == /\ l <= Len(Trace) /\ Trace[l].ev = "reset"
         /\ verified' = {} /\ val' = Trace[l].val /\ cb' = Trace[l].cb
         /\ subs' = SetOf(Trace[l].subs) /\ store' = SetOf(Trace[l].store) /\ sok' = {}
         /\ l' = l + 1

FinishOK(e) == e.http = 200 /\ e.state = 4 /\ e.err = 0
StartOK(e)  == e.http = 200 /\ e.state = 2 /\ e.err = 0
NotServed(e) == e.class \in {"Refused", "BadRequest", "Closed", "Timeout"}

Step ==
  /\ l <= Len(Trace) /\ Trace[l].ev = "step"
  /\ LET e == Trace[l]
         c == e.c
         isConn == c # "app"
         wasV == c \in verified
         genuine == e.a = "VFinish" /\ e.p \in {"genuine", "genuine_inject"} /\ "legit" \in store
     IN
     \* C03: an encrypted answer only on a verified connection; every non-genuine finish and every malformed start
     \* is answered with an error (or the connection is dropped)
     \* (the reply to an accepted genuine finish belongs to the hand-over itself: whether it must still be plaintext is
     \*  C04's business, not C03's)
     /\ Report("VerifiedRule", e.enc => (wasV \/ (genuine /\ FinishOK(e))))
     /\ Report("ErrorRule", (e.a = "VFinish" /\ ~genuine) => ~FinishOK(e))
     /\ Report("ErrorRule", (e.a = "VStart" /\ e.p \notin {"ok", "sameA"}) => ~StartOK(e))
     \* a finish is accepted only when it answers an accepted start: after a rejected or out-of-order start it is refused
     /\ Report("ErrorRule", (e.a = "VFinish" /\ FinishOK(e)) => c \in sok)
     /\ Report("PlainStaysPlain", (isConn /\ ~wasV /\ e.f = "plain" /\ ~genuine) => e.class # "Timeout")
     \* C01: a protected request on an unverified connection is refused, discloses nothing, changes nothing
     /\ Report("GateRule", (e.a = "Req" /\ ~wasV) => (NotServed(e) /\ ~e.discloses))
     /\ Report("RefusalChangesNothing",
               (isConn /\ ~wasV /\ e.a # "Close") =>
                  (e.val = val /\ e.cb = cb /\ SetOf(e.subs) \subseteq subs /\ SetOf(e.store) = store))
     \* bytes the adversary appended to the genuine finish are not served as a request of the session
     /\ Report("NoPlainInSession", e.p = "genuine_inject" => ~e.injserved)
     /\ verified' = IF genuine /\ FinishOK(e) /\ e.p # "genuine_inject" THEN verified \cup {c}
                    ELSE IF e.a = "Close" THEN verified \ {c} ELSE verified
     /\ val' = e.val /\ cb' = e.cb /\ subs' = SetOf(e.subs) /\ store' = SetOf(e.store)
     /\ sok' = IF e.a = "VStart" THEN (IF StartOK(e) THEN sok \cup {c} ELSE sok \ {c})
               ELSE IF e.a \in {"VFinish", "Close"} THEN sok \ {c} ELSE sok
  /\ l' = l + 1

Probe ==
  /\ l <= Len(Trace) /\ Trace[l].ev = "probe"
  /\ LET e == Trace[l]
         c == e.c
         isV == c \in verified
     IN
     /\ Report("VerifiedRule", e.mode = "enc" => isV)
     /\ Report("NoCarryOver", (e.mode = "enc" /\ ~isV) => verified = {})
     /\ Report("PlainStaysPlain", ~isV => e.mode \in {"plain", "closed"})
     /\ Report("GateRule", ~isV => (NotServed(e) /\ ~e.discloses))
     /\ Report("OnlyVerifiedGetEvents", e.events > 0 => isV)
     /\ Report("RefusalChangesNothing", ~isV => (e.cb = cb /\ SetOf(e.subs) \subseteq subs /\ SetOf(e.store) = store))
     /\ cb' = e.cb /\ subs' = SetOf(e.subs) /\ store' = SetOf(e.store)
  /\ UNCHANGED <<verified, val, sok>>
  /\ l' = l + 1

Next == Reset \/ Step \/ Probe
Accepted == TLCGet("stats").diameter = Len(Trace) + 1
=======================================================================
