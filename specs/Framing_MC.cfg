SPECIFICATION Spec
CONSTANTS
  F = 1024
  MsgLens = {0, 1, 2, 1023, 1024, 1025, 2047, 2048, 2049, 3072, 4097}
  MaxMsgs = 3
  Chunkings = {"full", "one_byte", "halves", "data_with_eof"}
  Weak = {}
INVARIANTS FrameSize Counters Complete OnlyLastShort
CHECK_DEADLOCK FALSE
