---------------------------- MODULE SecureChannel ----------------------------
(* Design specification of the receiving side of a HAP secure session against an on-path adversary.
   C05  Any alteration of the encrypted stream is detected

   Code anchors:
     crypto/secure_session.go:24-62   per-direction keys from the shared secret (HKDF-SHA-512, "Control-Salt")
     crypto/secure_session.go:66-88   sealing: nonce = 64-bit LE frame counter, AAD = 2 length bytes
     crypto/secure_session.go:91-134  opening: length, body, tag; counter advanced per frame; stop on error
   The adversary builds the byte stream the receiver sees out of frames it has observed on this or another session, in
   this or the opposite direction, unaltered or altered.  Weak = {} is the intended design. *)
EXTENDS Naturals, Sequences, FiniteSets, TLC

CONSTANTS NSent,      \* frames the honest peer sent in the attacked direction (counters 0..NSent-1)
          MaxWire,    \* length bound of the stream the adversary delivers
          Weak
VARIABLES wire, pos, rcvCtr, released, err, firstBad,
          pending      \* frames opened by the call in progress, not yet handed to the caller (a call reads on after a full frame)
vars == <<wire, pos, rcvCtr, released, err, firstBad, pending>>
Guard(g) == g \notin Weak

\* a wire item: which observed frame it is a copy of, and how it was altered
\*   sess: "this" | "other"   (other = a different session / shared secret)
\*   dir : "fwd" | "rev"      (rev = the receiver's own outgoing direction, reflected back)
\*   idx : 1..NSent           (frame number = counter + 1)
\*   alt : "none" | "len" | "ct" | "tag" | "cut" | "zero"
\*         (cut = the delivery ends inside this frame; zero = a forged frame in its place: length 0 and an arbitrary tag)
\*         After a cut the adversary may go on delivering (the items that follow it on the wire arrive in a later call).
Items == [sess : {"this", "other"}, dir : {"fwd", "rev"}, idx : 1..NSent, alt : {"none", "len", "ct", "tag", "cut", "zero"}]
Genuine(it, k) == it.sess = "this" /\ it.dir = "fwd" /\ it.idx = k /\ it.alt = "none"

Init == /\ wire \in UNION {[1..n -> Items] : n \in 0..MaxWire}
        /\ pos = 1 /\ rcvCtr = 0 /\ released = <<>> /\ err = FALSE /\ pending = <<>>
        /\ firstBad = 0          \* ghost: first wire position that is not the next genuine frame

\* does the AEAD open succeed for this item with the receiver's current counter?
Opens(it) ==
  /\ it.alt = "none" \/ (it.alt = "tag" /\ ~Guard("tag_checked"))
  /\ it.sess = "this" \/ ~Guard("keys_depend_on_secret")
  /\ it.dir = "fwd" \/ ~Guard("keys_differ_per_direction")
  /\ it.idx = rcvCtr + 1 \/ ~Guard("nonce_is_counter")

\* an error is final (guard error_is_final): whatever failed - the tag, or a frame that never completed - the receiver has
\* consumed input and advanced its counter, so nothing that arrives later can be told from a forgery any more
Receive ==
  /\ (~err \/ ~Guard("error_is_final")) /\ pos <= Len(wire)
  /\ LET it == wire[pos] IN
     /\ firstBad' = IF firstBad = 0 /\ ~Genuine(it, Len(released) + Len(pending) + 1) THEN pos ELSE firstBad
     /\ IF Opens(it)
        THEN /\ pending' = Append(pending, it) /\ UNCHANGED released
             /\ rcvCtr' = IF Guard("counter_incremented") THEN rcvCtr + 1 ELSE rcvCtr
             /\ err' = err
        ELSE /\ err' = TRUE /\ UNCHANGED released
             /\ pending' = <<>>                    \* the failed call hands nothing over, not even the frames it had opened
             \* the counter is advanced before the tag is looked at; a frame that never completes does not get that far
             /\ rcvCtr' = IF it.alt = "cut" \/ Guard("error_is_final") THEN rcvCtr ELSE rcvCtr + 1
     /\ pos' = pos + 1
  /\ UNCHANGED wire
\* the call returns what it opened (after a frame that is not full, or at the end of the input)
HandOver == /\ pending # <<>> /\ released' = released \o pending /\ pending' = <<>>
            /\ UNCHANGED <<wire, pos, rcvCtr, err, firstBad>>
Next == Receive \/ HandOver
Spec == Init /\ [][Next]_vars

\* ---- C05
PrefixRule == \A i \in 1..Len(released) : Genuine(released[i], i)
DetectRule == (firstBad # 0 /\ pos > firstBad) => err        \* an error no later than the first altered frame
\* (err is sticky: with the guard error_is_final missing the receiver goes on after an error, and PrefixRule is what breaks)
=======================================================================
