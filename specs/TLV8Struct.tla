---------------------------- MODULE TLV8Struct ----------------------------
(* Specification of struct TLV8 marshalling: which items a typed value becomes.
   C17  Struct TLV8 marshalling round-trips and matches the wire encoding
   Code anchors: tlv8/encoder.go:48-119 (structPayload), tlv8/writer.go (widths, fragmentation), tlv8/decoder.go, tlv8/reader.go.

   A value is a typed tree: a sequence of fields [k, tag, n, f, e]
     k    "u8" "u16" "u32" "u64" "i16" "i32" "i64" "f32" "bool" "string" "bytes"  leaves (n = byte length for string / bytes)
          "struct" (f = its fields)   "list" (tagged list, e = elements, each [f |-> fields])   "inline" (inline list)
   The specification decides STRUCTURE: which tag, how many bytes, nesting, list delimiters, fragmentation.  The digits
   inside a leaf (64-bit integers, IEEE-754 bits) are compared with an independent reference encoder by the harness:
   TLC integers are 32-bit. *)
EXTENDS Naturals, Sequences, FiniteSets, TLC
MaxFrag == 255
Width(f) == CASE f.k \in {"u8", "bool"} -> 1
              [] f.k \in {"u16", "i16"} -> 2
              [] f.k \in {"u32", "i32", "f32"} -> 4
              [] f.k \in {"u64", "i64"} -> 8
              [] f.k \in {"string", "bytes"} -> f.n
              [] OTHER -> 0
Leafy(f) == f.k \notin {"struct", "list", "inline"}
NumFrags(n) == IF n = 0 THEN 0 ELSE (n + MaxFrag - 1) \div MaxFrag      \* an empty value produces no item
RECURSIVE Size(_)
\* encoded size of a sequence of items [tag, total, sub]; a delimiter is an item with total 0 and tag 0
Size(items) == IF items = <<>> THEN 0
               ELSE (IF Head(items).total = 0 THEN 2 ELSE Head(items).total + 2 * NumFrags(Head(items).total)) + Size(Tail(items))
Delim == [tag |-> 0, total |-> 0, sub |-> <<>>]
RECURSIVE ItemsOf(_)
RECURSIVE Elements(_, _, _)
\* items of the elements of a list: inline (the elements' own items) or tagged (one item per element), 00 00 between elements
Elements(es, tag, inline) ==
  IF es = <<>> THEN <<>>
  ELSE LET sub == ItemsOf(Head(es).f)
           one == IF inline THEN sub
                  ELSE IF Size(sub) = 0 THEN <<>> ELSE <<[tag |-> tag, total |-> Size(sub), sub |-> sub]>>
       IN one \o (IF Tail(es) = <<>> THEN <<>> ELSE <<Delim>> \o Elements(Tail(es), tag, inline))
ItemsOf(fs) ==
  IF fs = <<>> THEN <<>>
  ELSE LET f == Head(fs)
           here == IF Leafy(f) THEN (IF Width(f) = 0 THEN <<>> ELSE <<[tag |-> f.tag, total |-> Width(f), sub |-> <<>>]>>)
                   ELSE IF f.k = "struct" THEN (LET sub == ItemsOf(f.f) IN
                                                  IF Size(sub) = 0 THEN <<>> ELSE <<[tag |-> f.tag, total |-> Size(sub), sub |-> sub]>>)
                   ELSE Elements(f.e, f.tag, f.k = "inline")
       IN here \o ItemsOf(Tail(fs))
\* fragments of one item: all full but the last
RECURSIVE Sum(_)
Sum(s) == IF s = <<>> THEN 0 ELSE Head(s) + Sum(Tail(s))
WellFragmented(fr, n) == /\ Sum(fr) = n /\ \A k \in 1..Len(fr) : fr[k] <= MaxFrag
                         /\ \A k \in 1..Len(fr) : k < Len(fr) => fr[k] = MaxFrag
                         /\ Len(fr) = NumFrags(n) \/ n = 0
=======================================================================
