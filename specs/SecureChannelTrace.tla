---------------------------- MODULE SecureChannelTrace ----------------------------
(* Monitor for C05: each line is one adversary stream delivered to the real receiver (crypto Decrypt, or hap.Connection.Read)
   and what came out.  {"ev":"stream","case","wire":[items],"nrel":frames released,"relok":released bytes equal the
   sent plaintexts of frames 1..nrel,"err":an error was reported,
   "offs":start offsets of the items in the stream,"okend":offset consumed by the calls that reported success} *)
EXTENDS Naturals, Sequences, FiniteSets, TLC, Json, IOUtils
VARIABLES l
Trace == ndJsonDeserialize(IOEnv.TRACE)
Report(rule, ok) == IF ok THEN TRUE ELSE PrintT(<<"VIOL", rule, l>>)
Genuine(it, k) == it.sess = "this" /\ it.dir = "fwd" /\ it.idx = k /\ it.alt = "none"
\* first position that is not the next genuine frame (0 = none)
RECURSIVE FirstBad(_, _)
FirstBad(w, i) == IF i > Len(w) THEN 0 ELSE IF Genuine(w[i], i) THEN FirstBad(w, i + 1) ELSE i
Init == l = 1
Next == /\ l <= Len(Trace)
        /\ LET e == Trace[l]
               fb == FirstBad(e.wire, 1) IN
           \* what is released is an unmodified prefix, at frame granularity, of what the peer sent ...
           \* (a genuine copy of the next frame that arrives after a damaged one may be released or not: both keep the prefix)
           /\ Report("PrefixRule", e.relok /\ e.nrel <= Len(e.wire))
           \* ... and an alteration is reported, no later than the first altered frame: no call that reported success had
           \* consumed anything beyond the start of that frame (offs = start offset of each item, okend = end of the last success
           \* before the first error)
           /\ Report("DetectRule", fb # 0 => (e.err /\ e.okend <= e.offs[fb]))
           \* (sanity, not C05: an untouched stream is accepted completely)
           /\ Report("GenuineAccepted", fb = 0 => (~e.err /\ e.nrel = Len(e.wire)))
        /\ l' = l + 1
Accepted == TLCGet("stats").diameter = Len(Trace) + 1
=======================================================================
