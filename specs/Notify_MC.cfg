SPECIFICATION GSpec
CONSTANTS
  Conn = {"c1", "c2", "c3"}
  Char = {"x", "y", "z"}
  Evented = {"x", "y"}
  Weak = {}
PROPERTIES ExactlyOnceRule
VIEW View
CHECK_DEADLOCK FALSE
