---------------------------- MODULE ConnWrite ----------------------------
(* Design specification of concurrent writers on one encrypted connection.
   C08  Concurrent writers never corrupt the encrypted stream

   Code anchors:
     hap/connection.go:46-61        EncryptedWrite: look up the encrypter, seal all frames of the payload, write them
     crypto/secure_session.go:66-88 Encrypt: per frame nonce = s.encryptCount; s.encryptCount++  (a read and a write)
     ip_transport.go:261-291        notifications are written from the goroutine that changed the value
     hap/keep_alive.go:41-54        keep-alive writer
   Writers: the HTTP response of a request, event notifications, keep-alives.  A guard in Weak is MISSING.

   A payload of several frames is sealed and written in ONE critical section (guard payload_in_one_critical_section):
   a writer that gave the lock back after PieceLen frames and took it again for the next ones (a "memory saving" chunked
   write) lets another writer's frames in between - every frame opens, the counters are in order, and the payload is torn. *)
EXTENDS Naturals, Sequences, FiniteSets, TLC
CONSTANTS Writer, NFrames, Weak,
          PieceLen   \* frames per critical section when payload_in_one_critical_section is missing
VARIABLES ctr,    \* the session's frame counter
          pc,     \* [Writer -> "idle" | "load" | "store" | "sealed" | "done"]
          mine,   \* [Writer -> sequence of counters its frames were sealed under]
          tmp,    \* [Writer -> the counter value it has read]
          sock,   \* frames as they hit the socket: sequence of [w, c]
          out,    \* [Writer -> number of its frames that are on the socket]
          lock,   \* "free" or the writer holding the write lock
          act
vars == <<ctr, pc, mine, tmp, sock, out, lock, act>>
Locked == "lock_around_encrypt_and_write" \notin Weak
OneSection == "payload_in_one_critical_section" \notin Weak
\* the number of frames the writer has sealed when it goes to the socket
Quota(w) == IF OneSection \/ out[w] + PieceLen > NFrames[w] THEN NFrames[w] ELSE out[w] + PieceLen

Init == /\ ctr = 0 /\ pc = [w \in Writer |-> "idle"] /\ mine = [w \in Writer |-> <<>>]
        /\ tmp = [w \in Writer |-> 0] /\ sock = <<>> /\ out = [w \in Writer |-> 0] /\ lock = "free" /\ act = <<"none", "none">>

\* enter EncryptedWrite (take the lock when there is one)
Begin(w) == /\ pc[w] = "idle" /\ (Locked => lock = "free")
            /\ lock' = IF Locked THEN w ELSE lock
            /\ pc' = [pc EXCEPT ![w] = "load"] /\ act' = <<"Begin", w>> /\ UNCHANGED <<ctr, mine, tmp, sock, out>>
\* s.encryptCount is read ...
Load(w) == /\ pc[w] = "load" /\ tmp' = [tmp EXCEPT ![w] = ctr]
           /\ pc' = [pc EXCEPT ![w] = "store"] /\ act' = <<"Load", w>> /\ UNCHANGED <<ctr, mine, sock, out, lock>>
\* ... and written back incremented; the frame is sealed under the value read
Store(w) == /\ pc[w] = "store" /\ ctr' = tmp[w] + 1
            /\ mine' = [mine EXCEPT ![w] = Append(@, tmp[w])]
            /\ pc' = [pc EXCEPT ![w] = IF Len(mine[w]) + 1 = Quota(w) THEN "sealed" ELSE "load"]
            /\ act' = <<"Store", w>> /\ UNCHANGED <<tmp, sock, out, lock>>
\* one Write of the whole sealed buffer to the socket (contiguous by net.Conn's own write lock); a writer that has more to
\* seal (only without payload_in_one_critical_section) gives the lock back and enters again
SockWrite(w) == /\ pc[w] = "sealed"
                /\ sock' = sock \o [i \in 1..(Len(mine[w]) - out[w]) |-> [w |-> w, c |-> mine[w][out[w] + i]]]
                /\ out' = [out EXCEPT ![w] = Len(mine[w])]
                /\ pc' = [pc EXCEPT ![w] = IF Len(mine[w]) = NFrames[w] THEN "done" ELSE "idle"]
                /\ lock' = IF Locked THEN "free" ELSE lock
                /\ act' = <<"SockWrite", w>> /\ UNCHANGED <<ctr, mine, tmp>>
Next == \E w \in Writer : Begin(w) \/ Load(w) \/ Store(w) \/ SockWrite(w)
Spec == Init /\ [][Next]_vars

\* ---- C08: the peer opens frame i with counter i-1
InOrder == \A i \in 1..Len(sock) : sock[i].c = i - 1
Contiguous == \A i, j \in 1..Len(sock) : (i < j /\ sock[i].w = sock[j].w) => \A k \in i..j : sock[k].w = sock[i].w
View == <<ctr, pc, mine, tmp, sock, out, lock>>
=======================================================================
