SPECIFICATION Spec
CONSTANTS
  Lens = {0, 5, 40, 4096}
  Protocol = "rename"
  Weak = {}
INVARIANTS AtomicRule Completed FollowUp
CHECK_DEADLOCK FALSE
