SPECIFICATION Spec
CONSTANTS
  Lens = {0, 5, 40, 4096}
  Protocol = "rename"
INVARIANTS AtomicRule Completed
CHECK_DEADLOCK FALSE
