SPECIFICATION Spec
CONSTANTS
  Ctrl = {"c1", "c2", "c3"}
  Weak = {}
INVARIANT OwnResponse
CHECK_DEADLOCK FALSE
