SPECIFICATION Spec
CONSTANTS
  MaxAcc = 4
  Explicit = {0, 1, 2, 3}
  Shapes <- ShapesDef
  Weak = {}
INVARIANTS UniqueAids NonZero UniqueIids Idempotent AutomaticAccepted
CHECK_DEADLOCK FALSE
