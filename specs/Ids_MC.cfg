SPECIFICATION Spec
CONSTANTS
  MaxAcc = 4
  Explicit = {0, 1, 2, 3}
  Shapes <- ShapesDef
  Weak = {}
INVARIANTS UniqueAids NonZero UniqueIids
CHECK_DEADLOCK FALSE
