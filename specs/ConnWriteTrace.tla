---------------------------- MODULE ConnWriteTrace ----------------------------
(* Monitor for C08: one line per realised schedule / stress run on the real hap.Connection:
   {"ev":"sched","order":[...],"realised":the adversarial order could be forced,"ctrs":[counter under which the i-th frame on
   the socket opens, -1 if it does not open],"owners":[writer of the i-th frame by payload marker],"intact":every payload
   arrived complete and contiguous,"races":data races reported by the race detector} *)
EXTENDS Integers, Sequences, FiniteSets, TLC, Json, IOUtils
VARIABLES l
Trace == ndJsonDeserialize(IOEnv.TRACE)
Report(rule, ok) == IF ok THEN TRUE ELSE PrintT(<<"VIOL", rule, l>>)
Init == l = 1
Next == /\ l <= Len(Trace)
        /\ LET e == Trace[l] IN
           /\ Report("InOrder", \A i \in 1..Len(e.ctrs) : e.ctrs[i] = i - 1)
           /\ Report("Contiguous", e.intact)
           /\ Report("NoRace", e.races = 0)
        /\ l' = l + 1
Accepted == TLCGet("stats").diameter = Len(Trace) + 1
=======================================================================
