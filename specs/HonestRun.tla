---------------------------- MODULE HonestRun ----------------------------
(* Design specification of the honest exchange between a specification-conformant controller and the accessory,
   written from the HAP specification (symbolic terms, Dolev-Yao style), not from hc.
   C04  A specification-conformant controller can pair, verify and talk

   Terms: Hkdf(secret, salt, info), Aead(key, nonce, body), Sig(key, material), Tlv(items).
   Pair-setup  M1 -> M2 [State=2, PublicKey=B(384), Salt(16)]
               M3 -> M4 [State=4, Proof=M2proof(64)]                          wrong code: [State=4, Error=2], nothing stored
               M5 -> M6 [State=6, EncryptedData = Aead(Hkdf(K,"Pair-Setup-Encrypt-Salt","Pair-Setup-Encrypt-Info"), "PS-Msg06",
                          Tlv[Identifier=acc, PublicKey=ltpk(32), Signature=Sig(ltsk, Hkdf(K,"Pair-Setup-Accessory-Sign-Salt",
                          "Pair-Setup-Accessory-Sign-Info") | acc | ltpk)])];  the controller's (id, ltpk) is stored
   Pair-verify V1 -> V2 [State=2, PublicKey=accEph(32), EncryptedData = Aead(Hkdf(shared,"Pair-Verify-Encrypt-Salt",
                          "Pair-Verify-Encrypt-Info"), "PV-Msg02", Tlv[Identifier=acc, Signature=Sig(ltsk, accEph | acc | ctrlEph)])]
               V3 -> V4 [State=4]  in PLAINTEXT; everything after it is framed under the Control-Salt keys in both directions
   Every item appears exactly once in a message. *)
EXTENDS Naturals, Sequences, FiniteSets, TLC
CONSTANTS MaxReq, Weak
VARIABLES phase,    \* "start" | "M2" | "M4" | "M4err" | "M6" | "V2" | "V4" | "talk"
          code,     \* "right" | "wrong" | "retry" (a wrong code first, then the right one on the same connection)
          stored,   \* the controller's pairing is stored
          mode,     \* [c2a, a2c] : "plain" | "enc"   what each direction is framed as from now on
          nreq,
          last      \* name of the last accessory message and how it was framed
vars == <<phase, code, stored, mode, nreq, last>>
Guard(g) == g \notin Weak

Init == /\ phase = "start" /\ code \in {"right", "wrong", "retry"} /\ stored = FALSE
        /\ mode = [c2a |-> "plain", a2c |-> "plain"] /\ nreq = 0 /\ last = [m |-> "none", framed |-> "plain"]
Say(m) == last' = [m |-> m, framed |-> mode.a2c]

M1M2 == phase = "start" /\ phase' = "M2" /\ Say("M2") /\ UNCHANGED <<code, stored, mode, nreq>>
M3M4 == /\ phase = "M2"
        /\ IF code = "right" THEN phase' = "M4" /\ Say("M4") ELSE phase' = "M4err" /\ Say("M4err")
        /\ UNCHANGED <<code, stored, mode, nreq>>
M5M6 == phase = "M4" /\ phase' = "M6" /\ stored' = TRUE /\ Say("M6") /\ UNCHANGED <<code, mode, nreq>>
V1V2 == phase = "M6" /\ phase' = "V2" /\ Say("V2") /\ UNCHANGED <<code, stored, mode, nreq>>
\* the answer to V3 is still plaintext; the switch happens after it has been written
V3V4 == /\ phase = "V2" /\ phase' = "V4"
        /\ last' = [m |-> "V4", framed |-> IF Guard("v4_plaintext") THEN "plain" ELSE "enc"]
        /\ mode' = [c2a |-> "enc", a2c |-> "enc"]
        /\ UNCHANGED <<code, stored, nreq>>
Talk == /\ phase \in {"V4", "talk"} /\ nreq < MaxReq /\ phase' = "talk" /\ nreq' = nreq + 1
        /\ Say("resp") /\ UNCHANGED <<code, stored, mode>>
\* a failed attempt does not spoil the connection: the user enters the right code and starts again
Retry == phase = "M4err" /\ code = "retry" /\ phase' = "start" /\ code' = "right" /\ UNCHANGED <<stored, mode, nreq, last>>
Next == M1M2 \/ M3M4 \/ M5M6 \/ V1V2 \/ V3V4 \/ Talk \/ Retry
Spec == Init /\ [][Next]_vars

HandOver == /\ (last.m \in {"M2", "M4", "M4err", "M6", "V2", "V4"} => last.framed = "plain")
            /\ (last.m = "resp" => last.framed = "enc")
StoredOnlyAfterM6 == stored <=> phase \in {"M6", "V2", "V4", "talk"}
WrongCodeStoresNothing == code \in {"wrong", "retry"} => ~stored /\ phase \in {"start", "M2", "M4err"}
=======================================================================
