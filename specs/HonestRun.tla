---------------------------- MODULE HonestRun ----------------------------
(* Design specification of the honest exchange between a specification-conformant controller and the accessory,
   written from the HAP specification (symbolic terms, Dolev-Yao style), not from hc.
   C04  A specification-conformant controller can pair, verify and talk

   Terms: Hkdf(secret, salt, info), Aead(key, nonce, body), Sig(key, material), Tlv(items).
   Pair-setup  M1 -> M2 [State=2, PublicKey=B(384), Salt(16)]
               M3 -> M4 [State=4, Proof=M2proof(64)]                          wrong code: [State=4, Error=2], nothing stored
               M5 -> M6 [State=6, EncryptedData = Aead(Hkdf(K,"Pair-Setup-Encrypt-Salt","Pair-Setup-Encrypt-Info"), "PS-Msg06",
                          Tlv[Identifier=acc, PublicKey=ltpk(32), Signature=Sig(ltsk, Hkdf(K,"Pair-Setup-Accessory-Sign-Salt",
                          "Pair-Setup-Accessory-Sign-Info") | acc | ltpk)])];  the controller's (id, ltpk) is stored
   Pair-verify V1 -> V2 [State=2, PublicKey=accEph(32), EncryptedData = Aead(Hkdf(shared,"Pair-Verify-Encrypt-Salt",
                          "Pair-Verify-Encrypt-Info"), "PV-Msg02", Tlv[Identifier=acc, Signature=Sig(ltsk, accEph | acc | ctrlEph)])]
               V3 -> V4 [State=4]  in PLAINTEXT; everything after it is framed under the Control-Salt keys in both directions
   A controller may run pair-verify again inside a session: V2 and V4 travel in the session being replaced, everything after V4
   in the new one.
   Every item appears exactly once in a message. *)
EXTENDS Naturals, Sequences, FiniteSets, TLC
CONSTANTS MaxReq, MaxVerify, Weak
VARIABLES phase,    \* "start" | "M2" | "M4" | "M4err" | "M6" | "V2" | "V4" | "talk"
          code,     \* "right" | "wrong" | "retry" (a wrong code first, then the right one on the same connection)
          stored,   \* the controller's pairing is stored
          mode,     \* [c2a, a2c] : 0 = plaintext, n = framed under the keys of the n-th pair-verify of this connection:
                    \* what the ACCESSORY reads / writes with from now on
          expect,   \* the session under which the CONTROLLER opens the next accessory message (it switches when it has V4)
          pending,  \* the accessory has answered V4 but not switched its write side yet (only without the guard
                    \* switch_atomic_with_response)
          nreq, nver,
          last      \* the last accessory message: name, the session it was framed under, the session the controller expected
vars == <<phase, code, stored, mode, expect, pending, nreq, nver, last>>
Guard(g) == g \notin Weak

Init == /\ phase = "start" /\ code \in {"right", "wrong", "retry"} /\ stored = FALSE
        /\ mode = [c2a |-> 0, a2c |-> 0] /\ expect = 0 /\ pending = FALSE /\ nreq = 0 /\ nver = 0
        /\ last = [m |-> "none", framed |-> 0, expected |-> 0]
Say(m) == last' = [m |-> m, framed |-> mode.a2c, expected |-> expect]

M1M2 == phase = "start" /\ phase' = "M2" /\ Say("M2") /\ UNCHANGED <<code, stored, mode, expect, pending, nreq, nver>>
M3M4 == /\ phase = "M2"
        /\ IF code = "right" THEN phase' = "M4" /\ Say("M4") ELSE phase' = "M4err" /\ Say("M4err")
        /\ UNCHANGED <<code, stored, mode, expect, pending, nreq, nver>>
M5M6 == phase = "M4" /\ phase' = "M6" /\ stored' = TRUE /\ Say("M6") /\ UNCHANGED <<code, mode, expect, pending, nreq, nver>>
\* pair-verify: the first one in plaintext after pair-setup, later ones inside the session they replace
V1V2 == /\ phase \in {"M6", "V4", "talk"} /\ nver < MaxVerify /\ ~pending
        /\ phase' = "V2" /\ Say("V2") /\ UNCHANGED <<code, stored, mode, expect, pending, nreq, nver>>
\* The answer to V3 is still written the way the connection wrote before (plaintext, or the session being replaced); the
\* controller switches when it has it; the accessory reads with the new keys from the answer on and writes with them
\* right after it - in one step (guard switch_atomic_with_response).  Without the guard the write side follows later
\* (with the next read): whatever the accessory sends in between is framed the old way.
V3V4 == /\ phase = "V2" /\ phase' = "V4" /\ nver' = nver + 1
        /\ last' = [m |-> "V4", framed |-> IF Guard("v4_plaintext") THEN mode.a2c ELSE nver + 1, expected |-> expect]
        /\ expect' = nver + 1
        /\ IF Guard("switch_atomic_with_response")
           THEN mode' = [c2a |-> nver + 1, a2c |-> nver + 1] /\ UNCHANGED pending
           ELSE mode' = [mode EXCEPT !.c2a = nver + 1] /\ pending' = TRUE
        /\ UNCHANGED <<code, stored, nreq>>
\* the late switch of the write side: it happens when the next request is read (so before its response)
Switch == /\ pending /\ pending' = FALSE /\ mode' = [mode EXCEPT !.a2c = mode.c2a]
          /\ UNCHANGED <<phase, code, stored, expect, nreq, nver, last>>
Talk == /\ phase \in {"V4", "talk"} /\ nreq < MaxReq /\ ~pending /\ phase' = "talk" /\ nreq' = nreq + 1
        /\ Say("resp") /\ UNCHANGED <<code, stored, mode, expect, pending, nver>>
\* the accessory sends something of its own accord (an EVENT for a subscription, a keep-alive): at any time
Unsolicited == /\ Say("event") /\ UNCHANGED <<phase, code, stored, mode, expect, pending, nreq, nver>>
\* before it verifies, the controller asks for something protected on the same connection (a GET without a body and
\* without a length header) and is refused in plaintext; the connection is as good as before
PlainProbe == /\ phase = "M6" /\ mode.a2c = 0 /\ Say("probe")
              /\ UNCHANGED <<phase, code, stored, mode, expect, pending, nreq, nver>>
\* a failed attempt does not spoil the connection: the user enters the right code and starts again
Retry == phase = "M4err" /\ code = "retry" /\ phase' = "start" /\ code' = "right" /\ UNCHANGED <<stored, mode, expect, pending, nreq, nver, last>>
Next == M1M2 \/ M3M4 \/ M5M6 \/ PlainProbe \/ V1V2 \/ V3V4 \/ Switch \/ Talk \/ Unsolicited \/ Retry
Spec == Init /\ [][Next]_vars

\* every accessory message is framed the way the controller opens it; pairing messages before the first session are plaintext
HandOver == /\ last.framed = last.expected
            /\ (last.m \in {"M2", "M4", "M4err", "M6"} => last.framed = 0)
            /\ (last.m = "resp" => last.framed > 0)
StoredOnlyAfterM6 == stored <=> phase \in {"M6", "V2", "V4", "talk"}
WrongCodeStoresNothing == code \in {"wrong", "retry"} => ~stored /\ phase \in {"start", "M2", "M4err"}
=======================================================================
