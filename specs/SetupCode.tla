---------------------------- MODULE SetupCode ----------------------------
(* C20 (setup codes): the pin predicate and the setup-payload fields, judged on recorded evaluations of hc.ValidatePin
   and util.XHMURI.  A code is a sequence of byte values; the URI is decoded by the harness's independent base-36 decoder
   and only the decoded fields travel here (TLC integers are 32-bit, the payload has 46 bits). *)
EXTENDS Naturals, Sequences, FiniteSets, TLC, Json, IOUtils
VARIABLES l
Trace == ndJsonDeserialize(IOEnv.TRACE)
Report(rule, ok) == IF ok THEN TRUE ELSE PrintT(<<"VIOL", rule, l>>)
Digit(c) == c >= 48 /\ c <= 57
Same(cs) == \A i \in 1..Len(cs) : cs[i] = cs[1]
Ascending == <<49, 50, 51, 52, 53, 54, 55, 56>>     \* "12345678"
Descending == <<56, 55, 54, 53, 52, 51, 50, 49>>    \* "87654321"
Trivial(cs) == Same(cs) \/ cs = Ascending \/ cs = Descending
ValidPin(cs) == Len(cs) = 8 /\ (\A i \in 1..8 : Digit(cs[i])) /\ ~Trivial(cs)
\* accepted codes are handed to SRP as XXX-XX-XXX
Formatted(cs) == <<cs[1], cs[2], cs[3], 45, cs[4], cs[5], 45, cs[6], cs[7], cs[8]>>
Init == l = 1
Next ==
  /\ l <= Len(Trace)
  /\ LET e == Trace[l] IN
     CASE e.ev = "pin" -> /\ Report("PinRule", e.accepted = ValidPin(e.chars))
                          /\ Report("PinRule", e.accepted => e.formatted = Formatted(e.chars))
       [] e.ev = "uri" -> Report("UriRule", ~e.err /\ e.decoded /\ e.dcode = e.code /\ e.dcat = e.cat /\ e.dflags = e.flags
                                            /\ e.dver = 0 /\ e.dres = 0 /\ e.sidok /\ e.len = 20)
       [] e.ev = "sweep" -> Report("PinRule", e.bad = 0)
  /\ l' = l + 1
Accepted == TLCGet("stats").diameter = Len(Trace) + 1
=======================================================================
