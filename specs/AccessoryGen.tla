---------------------------- MODULE AccessoryGen ----------------------------
EXTENDS Accessory, Json
VARIABLES hist, bad, pre
GInit == Init /\ hist = <<>> /\ bad = FALSE /\ pre = <<>>
StepBad == \/ ((last'[1] = "Verify" /\ last'[4] = "ok") /\ last'[3] \notin paired)
           \/ ((last'[1] \in {"Read", "Sub", "Unsub", "Write", "Remove", "Add", "RemoveDuring"} /\ last'[4] = "ok") /\ ~Verified(last'[2]))
           \/ ~(got' \subseteq {k \in Conn : Verified(k) /\ k \in subs /\ k # last'[2]})
           \/ ~Discoverable'
           \/ (last'[1] \in {"Stop", "Start"} /\ paired' # paired)
Used(k) == \E i \in 1..Len(hist) : hist[i].conn = k
Arg(l, i) == l[i]
GNext == /\ Next
         /\ (Arg(last', 2) = "k2" => Used("k1")) /\ (Arg(last', 2) = "k3" => Used("k2"))
         /\ hist' = Append(hist, [a |-> last'[1], conn |-> Arg(last', 2), x |-> Arg(last', 3), exp |-> Arg(last', 4), want |-> got',
                                 k2 |-> IF Len(last') >= 5 THEN Arg(last', 5) ELSE "none"])
         /\ bad' = (bad \/ StepBad)
         /\ pre' = View
MaxLen == 4
WordBound == Len(hist) <= MaxLen
EmitWord == Len(hist) = MaxLen => PrintT(<<"BEH", ToJson(hist)>>)
EmitEdge == Len(hist) > 0 => PrintT(<<"BEH", ToJson(hist)>>)
\* true transitions: the state before the action and the action
EdgeView == <<pre, last>>
SimLen == 12
EmitSim == (Len(hist) = SimLen + 1 /\ hist[SimLen + 1].a = "Local" /\ hist[SimLen + 1].x = 0) => PrintT(<<"BEH", ToJson(SubSeq(hist, 1, SimLen))>>)
NoAttack == IF bad THEN ~PrintT(<<"BEH", ToJson(hist)>>) ELSE TRUE
AttackView == <<View, bad>>
=======================================================================
