---------------------------- MODULE Access ----------------------------
(* Design specification of the pair-verify server machine, the session switch and the gating layer.
   C03  A connection becomes verified only by a valid long-term-key signature
   C01  Protected endpoints serve only pair-verified connections

   Code anchors (unchanged tree, pinned commit):
     hap/pair/verify_server_controller.go:44-76   Handle: method / step dispatch, defer reset on finish
     hap/pair/verify_server_controller.go:89-135  handlePairVerifyStart
     hap/pair/verify_server_controller.go:145-199 handlePairVerifyFinish
     hap/endpoint/pair-verify.go:62-75            session switch after a finish response
     hap/session.go:68-96                         nextCryptographer promoted by the next Decrypter() call
     hap/http/characteristics.go:36-49            Authenticate
     hap/http/server.go:114-123                   endpoint registration
     ip_transport.go:153-155                      /resource registration
     hap/connection.go:111-118                    Close removes the session
     ip_transport.go:240-291                      event fan-out

   Named guards (constant Weak): a guard in Weak is MISSING.  Weak = {} is the intended design. *)
EXTENDS Naturals, Sequences, FiniteSets, TLC

CONSTANTS EvilConn,     \* connections of a peer that holds no paired long-term key
          LegitConn,    \* connections of the legitimate, paired controller
          FinishKinds,  \* slice of the finish alphabet
          StartLens,    \* slice of the start alphabet: "ok" | "short" | "long" | "empty" | "sameA" (valid, the controller
                        \* uses the ephemeral key of its previous exchange on this connection again)
          Ops,          \* slice of the protected-operation alphabet
          Noise,        \* slice of pair-setup noise: "psstart" | "pswrong" | "pszero"
          MaxExch,      \* accepted starts per connection (bounds the model)
          Weak

Conn == EvilConn \cup LegitConn

VARIABLES vstep,     \* [Conn -> {"Waiting","StartResp"}]      verify.step
          exch,      \* [Conn -> 0..MaxExch]  accepted starts: the peer holds the shared secret of exchange exch[c]
          mode,      \* [Conn -> {"plain","enc"}]              server-side cryptographer installed
          verified,  \* [Conn -> BOOLEAN]   ghost: a genuine finish was accepted on this very connection
          open,      \* [Conn -> BOOLEAN]
          legitPaired, \* the legitimate controller's pairing is stored
          extra,     \* BOOLEAN: the pairing "x" added through /pairings is stored
          val,       \* 0 | 1   value of the writable, evented characteristic
          subs,      \* SUBSET Conn   connections subscribed to it
          cb,        \* 0..2   application callbacks fired (saturating)
          sok,       \* SUBSET Conn  ghost: the latest pair-verify message on the connection was an ACCEPTED start
          same,      \* [Conn -> BOOLEAN]  the material of the current exchange (both ephemeral keys, hence every derived key) is
                     \* that of the previous exchange on this connection: only when the controller reused its key AND the
                     \* accessory did not create a new key pair for the exchange (guard accessory_key_fresh_per_exchange)
          cache,     \* [Conn -> name]  the first stored name a finish on this connection claimed: hidden state that only an
                     \* implementation WITHOUT the guard key_looked_up_per_finish has (an entity cached per connection)
          last       \* the last step: [c, a, p, r, ev]  (r = reply class, ev = connections that got an EVENT)

vars == <<vstep, exch, mode, verified, open, legitPaired, extra, val, subs, cb, cache, sok, same, last>>

Guard(g) == g \notin Weak
ProtectedOps == {"GetAcc", "GetChar", "PutVal", "PutSub", "Resource", "AddPair", "RemPair"}

Init == /\ vstep = [c \in Conn |-> "Waiting"] /\ exch = [c \in Conn |-> 0]
        /\ mode = [c \in Conn |-> "plain"] /\ verified = [c \in Conn |-> FALSE]
        /\ open = [c \in Conn |-> TRUE]
        /\ legitPaired = TRUE /\ extra = FALSE /\ val = 0 /\ subs = {} /\ cb = 0 /\ cache = [c \in Conn |-> "none"] /\ sok = {}
        /\ same = [c \in Conn |-> FALSE]
        /\ last = [c |-> "none", a |-> "none", p |-> "none", f |-> "none", r |-> "none", ev |-> {}]

Reply(c, a, p, f, r, ev) == last' = [c |-> c, a |-> a, p |-> p, f |-> f, r |-> r, ev |-> ev]

\* Pairing messages travel in the clear; the model only lets a peer send them while its connection is plain.
Plain(c) == open[c] /\ mode[c] = "plain"

\* ---- pair-verify start: verify_server_controller.go:59-65, 89-135
VStart(c, len) ==
  /\ Plain(c) /\ len \in StartLens
  /\ len \in {"ok", "sameA"} => exch[c] < MaxExch
  /\ len = "sameA" => exch[c] >= 1
  /\ IF vstep[c] # "Waiting"
     THEN /\ vstep' = [vstep EXCEPT ![c] = "Waiting"]            \* :61 reset, error
          /\ Reply(c, "VStart", len, "plain", "HttpError", {}) /\ UNCHANGED <<exch, same>>
     ELSE IF len \notin {"ok", "sameA"}
     \* a start with a key of the wrong length is rejected and leaves the machine waiting (guard
     \* rejected_start_keeps_waiting); without the guard the step is advanced before the length is looked at
     THEN /\ vstep' = [vstep EXCEPT ![c] = IF Guard("rejected_start_keeps_waiting") THEN "Waiting" ELSE "StartResp"]
          /\ Reply(c, "VStart", len, "plain", "HttpError", {}) /\ UNCHANGED <<exch, same>>
     ELSE /\ vstep' = [vstep EXCEPT ![c] = "StartResp"]
          /\ exch' = [exch EXCEPT ![c] = @ + 1]
          /\ same' = [same EXCEPT ![c] = (len = "sameA" /\ ~Guard("accessory_key_fresh_per_exchange"))]
          /\ Reply(c, "VStart", len, "plain", "V2", {})
  /\ sok' = IF vstep[c] = "Waiting" /\ len \in {"ok", "sameA"} THEN sok \cup {c} ELSE sok \ {c}
  /\ UNCHANGED <<mode, verified, open, legitPaired, extra, val, subs, cb, cache>>

\* ---- pair-verify finish: :66-72 (defer reset), 145-199, and the endpoint's switch pair-verify.go:62-75
\* kinds:  genuine   signed by the stored key of a paired name over this exchange's material
\*         wrongkey  names the paired controller, signed by another key
\*         stale     signed by the right key over the PREVIOUS exchange's material
\*         reordered signed by the right key over the material in the wrong order
\*         replayed  a finish box recorded from the legitimate controller's exchange
\*         replayown the genuine finish of the PREVIOUS exchange of this very connection, byte for byte: it opens and verifies
\*                   only if that exchange had the same material (same[c])
\*         unknown   names nobody stored
\*         self      names the accessory's own id (which IS an entity in the database, hap/device.go:25-36)
\*         selfkey   names the accessory's own id, signed with the ACCESSORY's long-term key over this exchange's material:
\*                   a valid signature under a stored key, but the accessory is not a controller (guard
\*                   accessory_is_not_a_controller; whoever holds the accessory's key must not become a controller by it)
\*         reflect   names the accessory's own id and echoes the accessory's own signature from its start response
\*         crossname names ANOTHER controller ("x", stored iff the extra pairing was added), signed by the legitimate
\*                   controller's key over this exchange's material with the claimed name: one paired controller posing as another
\*         badseal   box under a wrong key          short  box shorter than a tag     badtlv  garbage inside a good box
NeedsSecret(kind) == kind \in {"replayown", "genuine", "wrongkey", "stale", "reordered", "unknown", "self", "selfkey", "reflect", "badtlv", "crossname"}
NameOf(kind) == CASE kind \in {"genuine", "wrongkey", "stale", "reordered", "replayown"} -> "legit"
                  [] kind \in {"self", "selfkey", "reflect"} -> "acc"
                  [] kind = "crossname" -> "x"
                  [] OTHER -> "nobody"
\* the accessory's own entity lives in the same database; as a CONTROLLER it is known only when the guard is missing
Stored(n) == (n = "legit" /\ legitPaired) \/ (n = "acc" /\ ~Guard("accessory_is_not_a_controller")) \/ (n = "x" /\ extra)
\* the name whose stored key the signature is checked against
KeyOf(c, kind) == IF Guard("key_looked_up_per_finish") \/ cache[c] = "none" THEN NameOf(kind) ELSE cache[c]
\* genuine and crossname are signed with the legitimate controller's key over the right material (with the claimed name)
SignatureValid(c, kind) == \/ kind \in {"genuine", "crossname"} /\ c \in LegitConn /\ KeyOf(c, kind) = "legit" /\ legitPaired
                           \/ kind = "selfkey" /\ KeyOf(c, kind) = "acc"
                           \/ kind = "replayown" /\ same[c] /\ KeyOf(c, kind) = "legit" /\ legitPaired
NameKnown(c, kind) == Stored(KeyOf(c, kind))

VFinish(c, kind) ==
  /\ Plain(c) /\ kind \in FinishKinds
  /\ NeedsSecret(kind) => exch[c] > 0                           \* sealing needs the exchange's key
  /\ kind \in {"genuine", "stale", "reordered", "crossname", "replayown"} => c \in LegitConn   \* needs the paired long-term secret key
  /\ kind \in {"stale", "replayown"} => exch[c] >= 2
  /\ kind = "replayed" => c \in EvilConn /\ \E l \in LegitConn : exch[l] > 0
  /\ vstep' = [vstep EXCEPT ![c] = "Waiting"]                    \* defer verify.reset()
  /\ IF vstep[c] # "StartResp"
     THEN Reply(c, "VFinish", kind, "plain", "HttpError", {}) /\ UNCHANGED <<mode, verified>>
     ELSE IF kind \in {"short", "badseal", "replayed"} \/ (kind = "replayown" /\ ~same[c])       \* the box does not open
     THEN Reply(c, "VFinish", kind, "plain", "V4err", {}) /\ UNCHANGED <<mode, verified>>
     ELSE IF kind = "badtlv" \/ ~NameKnown(c, kind)
     THEN Reply(c, "VFinish", kind, "plain", "HttpError", {}) /\ UNCHANGED <<mode, verified>>
     ELSE IF SignatureValid(c, kind) \/ ~Guard("signature_checked")
     THEN /\ Reply(c, "VFinish", kind, "plain", "V4ok", {})
          /\ mode' = [mode EXCEPT ![c] = "enc"]
          /\ verified' = [verified EXCEPT ![c] = (kind = "genuine" /\ SignatureValid(c, kind))]
     ELSE \* known name, signature does not verify: state 4 + error 4
          /\ Reply(c, "VFinish", kind, "plain", "V4err", {})
          /\ mode' = [mode EXCEPT ![c] = IF Guard("session_installed_only_without_error") THEN "plain" ELSE "enc"]
          /\ UNCHANGED verified
  /\ cache' = IF /\ vstep[c] = "StartResp" /\ kind \notin {"short", "badseal", "replayed", "badtlv"} /\ ~(kind = "replayown" /\ ~same[c])
                 /\ cache[c] = "none" /\ Stored(NameOf(kind))
              THEN [cache EXCEPT ![c] = NameOf(kind)] ELSE cache
  /\ sok' = sok \ {c}
  /\ UNCHANGED <<exch, open, legitPaired, extra, val, subs, cb, same>>

\* ---- pair-setup noise a peer without the setup code can produce; its effect on the store is C02's business,
\* here it must neither verify the connection nor change anything.
PSNoise(c, kind) ==
  /\ Plain(c) /\ kind \in Noise
  /\ Reply(c, "PSNoise", kind, "plain", "Any", {})
  /\ UNCHANGED <<vstep, exch, mode, verified, open, legitPaired, extra, val, subs, cb, cache, sok, same>>

\* ---- the gating layer
Passes(c) == IF Guard("authenticate_checks_verified") THEN mode[c] = "enc" ELSE TRUE
Wrapped(op) == IF op \in {"AddPair", "RemPair"} THEN Guard("pairings_behind_auth")
               ELSE IF op = "Resource" THEN Guard("resource_behind_auth") ELSE TRUE
\* hap/http/characteristics.go:38-46: the refusal is written but the handler runs anyway when the return is missing
Returns == Guard("authenticate_returns_after_refusal")

Targets(origin) == {x \in subs : open[x] /\ x # origin}

Effect(c, op) ==
  /\ val' = IF op = "PutVal" THEN 1 - val ELSE val
  /\ cb' = IF op = "PutVal" /\ cb < 2 THEN cb + 1 ELSE cb
  /\ subs' = IF op = "PutSub" THEN subs \cup {c} ELSE subs
  /\ extra' = IF op = "AddPair" THEN TRUE ELSE extra
  /\ legitPaired' = IF op = "RemPair" THEN FALSE ELSE legitPaired

\* ---- the on-path adversary appends a plaintext protected request to the segment that carries the legitimate
\* controller's genuine finish.  Before the session starts, the accessory takes one request at a time off the wire (guard
\* one_request_at_a_time_before_the_session): what follows the finish request is read only after its response, that is with
\* the keys of the session, where the appended bytes are no frame and end the connection.  Without the guard they were
\* read ahead in plaintext together with the finish and are served as the verified connection's next request.
InjectBehindFinish(c) ==
  /\ Plain(c) /\ c \in LegitConn /\ "genuine_inject" \in FinishKinds
  /\ vstep[c] = "StartResp" /\ exch[c] > 0 /\ legitPaired /\ KeyOf(c, "genuine") = "legit"
  /\ vstep' = [vstep EXCEPT ![c] = "Waiting"] /\ sok' = sok \ {c}
  /\ IF Guard("one_request_at_a_time_before_the_session")
     THEN /\ Reply(c, "VFinish", "genuine_inject", "plain", "V4ok", {})
          /\ mode' = [mode EXCEPT ![c] = "enc"] /\ verified' = [verified EXCEPT ![c] = TRUE]
          /\ open' = [open EXCEPT ![c] = FALSE] /\ subs' = subs \ {c}
          /\ UNCHANGED <<val, cb>>
     ELSE /\ Reply(c, "VFinish", "genuine_inject", "plain", "V4ok+Served", Targets(c))
          /\ mode' = [mode EXCEPT ![c] = "enc"] /\ verified' = [verified EXCEPT ![c] = TRUE]
          /\ val' = 1 - val /\ cb' = IF cb < 2 THEN cb + 1 ELSE cb
          /\ UNCHANGED <<open, subs>>
  /\ UNCHANGED <<exch, legitPaired, extra, cache, same>>

\* a request in plaintext, or framed under the keys the peer derived in its latest exchange
Req(c, op, form) ==
  /\ open[c] /\ op \in Ops
  /\ form = "cipher" => exch[c] > 0
  /\ form = "plain" => mode[c] = "plain"        \* plaintext into an encrypted session only wedges that connection
  /\ IF form = "cipher" /\ mode[c] = "plain"
     THEN /\ Reply(c, "Req", op, form, "BadRequest", {})      \* net/http cannot parse a frame: 400 and close
          /\ open' = [open EXCEPT ![c] = FALSE]
          /\ subs' = subs \ {c}
          /\ UNCHANGED <<val, cb, extra, legitPaired>>
     ELSE IF Wrapped(op) /\ ~Passes(c)
     THEN IF Returns
          THEN Reply(c, "Req", op, form, "Refused", {}) /\ UNCHANGED <<val, cb, subs, extra, legitPaired, open>>
          ELSE Reply(c, "Req", op, form, "RefusedButRun", IF op = "PutVal" THEN Targets(c) ELSE {})
               /\ Effect(c, op) /\ UNCHANGED open
     ELSE /\ Reply(c, "Req", op, form, "Served", IF op = "PutVal" THEN Targets(c) ELSE {})
          /\ Effect(c, op) /\ UNCHANGED open
  /\ UNCHANGED <<vstep, exch, mode, verified, cache, sok, same>>

\* the application changes the value: every open subscribed connection gets an EVENT
LocalSet ==
  /\ val' = 1 - val
  /\ Reply("app", "LocalSet", "none", "none", "none", Targets("app"))
  /\ UNCHANGED <<vstep, exch, mode, verified, open, legitPaired, extra, subs, cb, cache, sok, same>>

\* hap/connection.go:111-118
Close(c) ==
  /\ open[c]
  /\ open' = [open EXCEPT ![c] = FALSE]
  /\ subs' = subs \ {c}
  /\ Reply(c, "Close", "none", "none", "none", {})
  /\ sok' = sok \ {c}
  /\ UNCHANGED <<vstep, exch, mode, verified, legitPaired, extra, val, cb, cache, same>>

Next == \/ \E c \in Conn :
             \/ \E len \in StartLens : VStart(c, len)
             \/ \E k \in FinishKinds \ {"genuine_inject"} : VFinish(c, k)
             \/ InjectBehindFinish(c)
             \/ \E k \in Noise : PSNoise(c, k)
             \/ \E op \in Ops, f \in {"plain", "cipher"} : Req(c, op, f)
             \/ Close(c)
        \/ LocalSet

Spec == Init /\ [][Next]_vars

\* ---------------------------------------------------------------- properties
\* C03
VerifiedRule == \A c \in Conn : mode[c] = "enc" => verified[c]
ErrorRule == [][ last'.a = "VFinish" /\ last'.r = "V4ok" => verified'[last'.c] ]_vars
\* a finish is accepted only when it answers an accepted start (nothing rejected or out of order in between)
FinishAnswersStart == [][ last'.a = "VFinish" /\ last'.r = "V4ok" => last'.c \in sok ]_vars
\* C01
GateRule == [][ (last'.a = "Req" /\ last'.r \in {"Served", "RefusedButRun"}) => verified[last'.c] ]_vars
RefusalChangesNothing ==
  [][ (last'.c \in Conn /\ ~verified[last'.c] /\ last'.a # "Close")
        => /\ UNCHANGED <<val, cb, extra, legitPaired>>
           /\ subs' \subseteq subs ]_vars
\* what the verified controller did not send inside the session is not served on it (C01)
NoPlainInSession == [][ last'.r # "V4ok+Served" ]_vars
NoCarryOver == \A c \in EvilConn : ~verified[c] /\ mode[c] = "plain"
OnlyVerifiedGetEvents == [][ \A c \in last'.ev : verified[c] ]_vars

TypeOK == /\ vstep \in [Conn -> {"Waiting", "StartResp"}] /\ exch \in [Conn -> 0..MaxExch]
          /\ mode \in [Conn -> {"plain", "enc"}] /\ verified \in [Conn -> BOOLEAN]
          /\ val \in {0, 1} /\ subs \subseteq Conn /\ cb \in 0..2

View == <<vstep, exch, mode, verified, open, legitPaired, extra, val, subs, cb, cache, sok, same>>
=======================================================================
