---------------------------- MODULE Notify ----------------------------
(* Design specification of event subscriptions and notification fan-out.
   C10  Each change is notified exactly once to exactly the subscribed others

   Code anchors:
     ip_transport.go:240-259   addAccessory: per-characteristic callbacks (from a connection / from the application)
     ip_transport.go:261-291   notifyListener: every active connection except the originator, subscribed sessions only
     hap/session.go:105-121    Subscribe / Unsubscribe / IsSubscribedTo
     hap/http/characteristics.go:101-158  PUT: value update from the connection, ev subscription, -70406 without ev perm
     characteristic/characteristic.go:121-151  updateValue: unchanged value is not propagated
     hap/connection.go:111-118 Close removes the session from the context
     hap/connection.go:46-61, 92-99  Write: encrypter looked up, then used (two steps; the session can vanish in between)

   A guard in Weak is MISSING; Weak = {} is the intended design. *)
EXTENDS Naturals, Sequences, FiniteSets, TLC

CONSTANTS Conn, Char, Evented, Weak
VARIABLES open,   \* SUBSET Conn   connections with a live (verified) session
          subs,   \* SUBSET (Conn \X Char)  server-side subscription flags
          val,    \* [Char -> 0..1]
          got,    \* [Conn -> sequence of <<ch, v>>]  EVENTs delivered by the last action, in the order of their arrival
          dup,    \* BOOLEAN: the last action delivered some event twice
          appPanic, \* BOOLEAN: the last action panicked in the application's goroutine
          last
vars == <<open, subs, val, got, dup, appPanic, last>>
Guard(g) == g \notin Weak
Vals == {0, 1}

Init == /\ open = {} /\ subs = {} /\ val = [ch \in Char |-> 0]
        /\ got = [c \in Conn |-> <<>>] /\ dup = FALSE /\ appPanic = FALSE
        /\ last = <<"none">>

Quiet == got' = [x \in Conn |-> <<>>] /\ dup' = FALSE /\ appPanic' = FALSE

Connect(c) == /\ c \notin open /\ open' = open \cup {c}
              /\ subs' = {s \in subs : s[1] # c}          \* a new connection has a new session: no subscriptions
              /\ Quiet /\ last' = <<"Connect", c>> /\ UNCHANGED val
Close(c) == /\ c \in open /\ open' = open \ {c}
            /\ subs' = IF Guard("session_removed_on_close") THEN {s \in subs : s[1] # c} ELSE subs
            /\ Quiet /\ last' = <<"Close", c>> /\ UNCHANGED val
Subscribe(c, ch) ==
  /\ c \in open
  /\ subs' = IF ch \in Evented \/ ~Guard("subscribe_requires_ev_perm") THEN subs \cup {<<c, ch>>} ELSE subs
  /\ Quiet /\ last' = <<"Sub", c, ch>> /\ UNCHANGED <<open, val>>
Unsubscribe(c, ch) ==
  /\ c \in open
  /\ subs' = IF Guard("unsubscribe_clears") THEN subs \ {<<c, ch>>} ELSE subs
  /\ Quiet /\ last' = <<"Unsub", c, ch>> /\ UNCHANGED <<open, val>>

\* who is written to by notifyListener(a, ch, except)
Targets(ch, origin) ==
  {c \in Conn : /\ (c \in open \/ ~Guard("session_removed_on_close"))
                /\ (c # origin \/ ~Guard("skip_originator"))
                /\ (<<c, ch>> \in subs \/ ~Guard("only_subscribed"))}

Update(ch, v, origin, tag) ==
  /\ LET changed == v # val[ch] \/ ~Guard("no_event_on_same_value")
         tg == IF changed THEN Targets(ch, origin) ELSE {} IN
     /\ val' = [val EXCEPT ![ch] = v]
     /\ got' = [c \in Conn |-> IF c \in tg THEN << <<ch, v>> >> ELSE <<>>]
     /\ dup' = (tg # {} /\ ~Guard("notified_once"))
     \* a notified connection that is not open any more: writing to it dereferences a vanished session
     /\ appPanic' = (\E c \in tg : c \notin open /\ ~Guard("write_tolerates_vanished_session"))
  /\ last' = <<tag, origin, ch, v>> /\ UNCHANGED <<open, subs>>
LocalSet(ch, v) == Update(ch, v, "app", "Local")

\* The application changes a value while connection c is closing: c was still in the list of active connections when
\* the fan-out started, its session is gone when the write happens (hap/connection.go:92-99 then :46-49).
LocalSetRacingClose(ch, v, c) ==
  /\ c \in open
  /\ LET changed == v # val[ch]
         tg == IF changed THEN Targets(ch, "app") \ {c} ELSE {} IN
     /\ val' = [val EXCEPT ![ch] = v]
     /\ got' = [x \in Conn |-> IF x \in tg THEN << <<ch, v>> >> ELSE <<>>]
     /\ dup' = FALSE
     /\ appPanic' = (changed /\ <<c, ch>> \in subs /\ ~Guard("write_tolerates_vanished_session"))
  /\ open' = open \ {c}
  /\ subs' = {s \in subs : s[1] # c}
  /\ last' = <<"LocalRace", c, ch, v>>
RemoteWrite(c, ch, v) == c \in open /\ Update(ch, v, c, "Remote")
\* The application answers a read of connection c through an installed getter (OnValueGet) that returns v: the value is
\* stored at that moment; the reader has it in its response, the subscribed others are notified (characteristic.go:109-114,
\* the update runs with the reading connection as origin).
GetterRead(c, ch, v) == c \in open /\ Update(ch, v, c, "Getter")

\* Two controllers write the same value at the same time.  Comparing with the current value and storing the new one is one
\* step (guard compare_and_store_atomic): whichever write comes first is the change, the other one finds the value unchanged.
\* Without the guard both compare before either stores: both are taken for a change, everybody else is notified twice and
\* the two writers notify each other.
RemoteWriteRace(c, d, ch, v) ==
  /\ c \in open /\ d \in open /\ c # d
  /\ IF Guard("compare_and_store_atomic")
     THEN \E first \in {c, d} : Update(ch, v, first, "RemoteRace")
     ELSE /\ val' = [val EXCEPT ![ch] = v]
          /\ got' = [x \in Conn |-> IF v # val[ch] /\ x \in (Targets(ch, c) \cup Targets(ch, d)) THEN << <<ch, v>> >> ELSE <<>>]
          /\ dup' = (v # val[ch] /\ (Targets(ch, c) \cap Targets(ch, d)) # {})
          /\ appPanic' = FALSE
          /\ last' = <<"RemoteRace", c, ch, v>> /\ UNCHANGED <<open, subs>>

\* A change that is followed by a second change before the first one has been notified: the application's own callback
\* answers the change to v by setting the value back (a momentary switch), or a second goroutine of the application sets
\* it back at the same time.  Two changes: everybody who listens (but the originator of the first) is told v, then
\* everybody who listens is told the value it went back to.  An event carries the value of ITS change (guard
\* event_carries_change_value: without it the value is read when the event is written, and both events carry the later
\* value), and the events of successive changes leave in the order of the changes (guard changes_notified_in_order:
\* without it the callbacks of the second change run inside those of the first and its event overtakes).
Nested(ch, v, origin, tag) ==
  /\ origin = "app" \/ origin \in open
  /\ v # val[ch]
  /\ LET u == val[ch]
         tg1 == Targets(ch, origin)
         tg2 == Targets(ch, "app")
         first(c) == IF c \in tg1 THEN << <<ch, IF Guard("event_carries_change_value") THEN v ELSE u>> >> ELSE <<>>
         second(c) == IF c \in tg2 THEN << <<ch, u>> >> ELSE <<>> IN
     /\ val' = val                                        \* v, then u again
     /\ got' = [c \in Conn |-> IF Guard("changes_notified_in_order") THEN first(c) \o second(c) ELSE second(c) \o first(c)]
     /\ dup' = FALSE /\ appPanic' = FALSE
  /\ last' = <<tag, origin, ch, v>> /\ UNCHANGED <<open, subs>>
\* two goroutines of the application: one sets the other value, one sets the current value.  Whichever stores first
\* decides: the current value first is no change and one change follows; the other value first is two changes.
LocalPair(ch) == LocalSet(ch, 1 - val[ch]) \/ Nested(ch, 1 - val[ch], "app", "Local")

\* The application changes a value three times (to the other value, back, and to the other value again) while connection c
\* has a request in flight: the events for c are held back until its response is written and then delivered, all three, in
\* order (guard held_back_events_all_delivered; an implementation that drops a held-back message which equals one it holds
\* already loses the third).  The others get theirs at once.
DuringRequest(c, ch) ==
  /\ c \in open
  /\ LET a == 1 - val[ch]
         tg == Targets(ch, "app")
         three == << <<ch, a>>, <<ch, val[ch]>>, <<ch, a>> >> IN
     /\ val' = [val EXCEPT ![ch] = a]
     /\ got' = [x \in Conn |-> IF x \notin tg THEN <<>>
                               ELSE IF x = c /\ ~Guard("held_back_events_all_delivered") THEN SubSeq(three, 1, 2) ELSE three]
     /\ dup' = FALSE /\ appPanic' = FALSE
  /\ last' = <<"During", c, ch, 1 - val[ch]>> /\ UNCHANGED <<open, subs>>

\* one PUT entry carrying a value AND ev (hap/http/characteristics.go:128-150: the value is written first, then the
\* subscription changes); sub = TRUE subscribes, FALSE unsubscribes
RemoteWriteEv(c, ch, v, sub) ==
  /\ c \in open
  /\ LET changed == v # val[ch] \/ ~Guard("no_event_on_same_value")
         tg == IF changed THEN Targets(ch, c) ELSE {} IN
     /\ val' = [val EXCEPT ![ch] = v]
     /\ got' = [x \in Conn |-> IF x \in tg THEN << <<ch, v>> >> ELSE <<>>]
     /\ dup' = (tg # {} /\ ~Guard("notified_once"))
     /\ appPanic' = FALSE
  /\ subs' = IF sub THEN (IF ch \in Evented \/ ~Guard("subscribe_requires_ev_perm") THEN subs \cup {<<c, ch>>} ELSE subs)
             ELSE (IF Guard("unsubscribe_clears") THEN subs \ {<<c, ch>>} ELSE subs)
  /\ last' = <<IF sub THEN "RemoteSub" ELSE "RemoteUnsub", c, ch, v>> /\ UNCHANGED open

Next == \/ \E c \in Conn : Connect(c) \/ Close(c)
        \/ \E c \in Conn, ch \in Char : Subscribe(c, ch) \/ Unsubscribe(c, ch)
        \/ \E ch \in Char, v \in Vals : LocalSet(ch, v) \/ \E c \in Conn : RemoteWrite(c, ch, v) \/ LocalSetRacingClose(ch, v, c) \/ GetterRead(c, ch, v)
        \/ \E ch \in Char, v \in Vals, c \in Conn, sub \in BOOLEAN : RemoteWriteEv(c, ch, v, sub)
        \/ \E ch \in Char, v \in Vals, c, d \in Conn : RemoteWriteRace(c, d, ch, v)
        \/ \E ch \in Char, v \in Vals, o \in Conn \cup {"app"} : Nested(ch, v, o, "Nested")
        \/ \E ch \in Char, c \in Conn : DuringRequest(c, ch)
Spec == Init /\ [][Next]_vars

\* ---- the property, phrased on observables only: `want` is the monitor's ghost (what each open connection asked for)
VARIABLE want
GInit == Init /\ want = {}
WantNext == want' = CASE last'[1] \in {"Sub", "RemoteSub"} /\ last'[3] \in Evented -> want \cup {<<last'[2], last'[3]>>}
                      [] last'[1] \in {"Unsub", "RemoteUnsub"} -> want \ {<<last'[2], last'[3]>>}
                      [] last'[1] \in {"Close", "Connect", "LocalRace"} -> {s \in want : s[1] # last'[2]}
                      [] OTHER -> want
GNext == Next /\ WantNext
GSpec == GInit /\ [][GNext]_<<vars, want>>

Listens(c, ch) == c \in open /\ <<c, ch>> \in want
Expected(c) == IF last'[1] = "During"
               THEN (IF Listens(c, last'[3]) THEN << <<last'[3], last'[4]>>, <<last'[3], val[last'[3]]>>, <<last'[3], last'[4]>> >> ELSE <<>>)
               ELSE
               IF last'[1] = "Nested"
               THEN (IF Listens(c, last'[3]) /\ c # last'[2] THEN << <<last'[3], last'[4]>> >> ELSE <<>>)
                    \o (IF Listens(c, last'[3]) THEN << <<last'[3], val[last'[3]]>> >> ELSE <<>>)
               ELSE
               IF /\ last'[1] \in {"Local", "Remote", "Getter", "LocalRace", "RemoteSub", "RemoteUnsub", "RemoteRace"}
                  /\ last'[4] # val[last'[3]]
                  /\ c \in open /\ c # last'[2] /\ <<c, last'[3]>> \in want
               THEN << <<last'[3], last'[4]>> >> ELSE <<>>
ExactlyOnceStep == (\A c \in Conn : got'[c] = Expected(c)) /\ ~dup' /\ ~appPanic'
ExactlyOnceRule == [][ExactlyOnceStep]_<<vars, want>>
View == <<open, subs, val, want>>

=======================================================================
