---------------------------- MODULE CharStack ----------------------------
(* Design specification of a characteristic as seen through the whole stack (application API on one side, verified
   controller over HTTP on the other) and of the response shape of GET /characteristics.
   C09  What the application sets is what a controller reads, and vice versa
   C11  (HTTP side) permissions are enforced for remote peers
   Code anchors: hap/http/characteristics.go:52-100 (GET: one entry per id, 207 with a status in every entry),
   :101-158 (PUT: value, ev), hap/http/accessories.go, characteristic/characteristic.go:121-151.
   A guard in Weak is MISSING. *)
EXTENDS Naturals, Sequences, FiniteSets, TLC
CONSTANTS Perms,     \* permission set of the cell under test
          Tok,       \* value tokens; "v0" is the initial value
          Ids,       \* id kinds for list reads: "e1", "e2" readable, "wo" write-only, "missing"
          WIds,      \* id kinds for list writes: "w1", "w2" writable, "ro" read-only, "missing"
          MaxList, Weak
VARIABLES val, subscribed, twin, last,
          blocked    \* a callback of the application panicked while a change was announced and the characteristic never
                     \* announces a change again (only without the guard listener_panic_does_not_block_later_changes)
vars == <<val, subscribed, twin, blocked, last>>
Guard(g) == g \notin Weak
R == "pr" \in Perms
W == "pw" \in Perms
E == "ev" \in Perms

\* twin: the controller is subscribed to the TWIN of the cell: the characteristic with the same instance id in another
\* accessory (instance ids are unique per accessory only).  Intended design: a subscription is held per accessory and id
\* (guard subscription_per_accessory_and_id); without it the twin's subscription counts for the cell too.
Init == val = "v0" /\ subscribed = FALSE /\ twin = FALSE /\ blocked = FALSE /\ last = [a |-> "none", tok |-> "none", ids |-> <<>>, r |-> "none", cb |-> "none", ev |-> 0]
Out(a, tok, ids, r, cb, ev) == last' = [a |-> a, tok |-> tok, ids |-> ids, r |-> r, cb |-> cb, ev |-> ev]

Listening      == subscribed \/ (twin /\ ~Guard("subscription_per_accessory_and_id"))
LocalSet(t)    == /\ val' = t /\ Out("LocalSet", t, <<>>, "ok", "none", IF Listening /\ t # val THEN 1 ELSE 0) /\ UNCHANGED <<subscribed, twin, blocked>>
SubTwin        == /\ twin' = TRUE /\ Out("SubTwin", "none", <<>>, "ok", "none", 0) /\ UNCHANGED <<val, subscribed, blocked>>
UnsubTwin      == /\ twin' = FALSE /\ Out("UnsubTwin", "none", <<>>, "ok", "none", 0) /\ UNCHANGED <<val, subscribed, blocked>>
RemoteWrite(t) == /\ IF W \/ ~Guard("write_needs_pw")
                     THEN val' = t /\ Out("RemoteWrite", t, <<>>, "ok", IF t # val /\ ~blocked THEN t ELSE "none", 0)
                     \* a write the controller may not make is answered with an error status (guard refused_write_reported);
                     \* without the guard it is dropped silently and the answer reads like a success
                     ELSE UNCHANGED val /\ Out("RemoteWrite", t, <<>>, IF Guard("refused_write_reported") THEN "status" ELSE "ignored", "none", 0)
                  /\ UNCHANGED <<subscribed, twin, blocked>>
\* one PUT entry carrying a value AND ev = true: the write and the subscription are decided independently, each by its
\* own permission (guard ev_checked_whatever_the_write_did: without it a refused write skips the check of the event
\* permission and the subscription is recorded)
RemoteWriteSub(t) ==
  /\ IF W \/ ~Guard("write_needs_pw") THEN val' = t ELSE UNCHANGED val
  /\ subscribed' = (E \/ ~Guard("subscribe_needs_ev") \/ (~W /\ ~Guard("ev_checked_whatever_the_write_did")))
  /\ Out("RemoteWriteSub", t, <<>>, IF W /\ E THEN "ok" ELSE "status", IF (W \/ ~Guard("write_needs_pw")) /\ t # val THEN t ELSE "none", 0)
  /\ UNCHANGED <<twin, blocked>>
\* A remote write whose announcement makes a callback of the application panic (net/http recovers, the connection is
\* dropped, the controller connects again).  The value is stored; later changes are announced as before (guard
\* listener_panic_does_not_block_later_changes).
PanickyWrite(t) ==
  /\ W /\ t # val /\ ~blocked
  /\ val' = t /\ subscribed' = FALSE /\ twin' = FALSE
  /\ blocked' = ~Guard("listener_panic_does_not_block_later_changes")
  /\ Out("PanickyWrite", t, <<>>, "dropped", t, 0)
RemoteRead     == /\ Out("RemoteRead", "none", <<>>, IF R THEN val ELSE "status", "none", 0) /\ UNCHANGED <<val, subscribed, twin, blocked>>
\* the application supplies the value through an installed getter (OnValueGet): the read returns it and it is the stored
\* value from then on (characteristic.go:109-114); a cell without read permission is not asked
GetterRead(t)  == /\ IF R THEN val' = t /\ Out("GetterRead", t, <<>>, t, "none", 0)
                          ELSE UNCHANGED val /\ Out("GetterRead", t, <<>>, "status", "none", 0)
                  /\ UNCHANGED <<subscribed, twin, blocked>>
AccRead        == /\ Out("AccRead", "none", <<>>, IF R THEN val ELSE "novalue", "none", 0) /\ UNCHANGED <<val, subscribed, twin, blocked>>
Sub            == /\ subscribed' = (E \/ ~Guard("subscribe_needs_ev"))
                  /\ Out("Sub", "none", <<>>, IF subscribed' THEN "ok" ELSE "status", "none", 0) /\ UNCHANGED <<val, twin, blocked>>
Unsub          == /\ subscribed' = FALSE /\ Out("Unsub", "none", <<>>, "ok", "none", 0) /\ UNCHANGED <<val, twin, blocked>>

\* response shape of a list read: one entry per id, in order; 200 iff all found and readable, else 207 with a status everywhere
Found(k) == k # "missing"
EntryOK(k) == k \in {"e1", "e2"}
Shape(ids) == [http |-> IF \A i \in 1..Len(ids) : EntryOK(ids[i]) THEN 200 ELSE 207,
               entries |-> [i \in 1..Len(ids) |-> [id |-> ids[i], value |-> EntryOK(ids[i]),
                                                   status |-> IF \A j \in 1..Len(ids) : EntryOK(ids[j]) THEN FALSE
                                                              ELSE (Guard("status_in_every_entry") \/ ~EntryOK(ids[i]))]]]
ReadList(ids)  == /\ Out("ReadList", "none", ids, "shape", "none", 0) /\ UNCHANGED <<val, subscribed, twin, blocked>>

\* response shape of a list write (PUT): 204 without a body iff every entry could be written, else 207 with one entry per
\* requested id, in order, each with a status: 0 for the entries that were written, an error for the others
WGood(k) == k \in {"w1", "w2"}
WShape(ids) == IF (\A i \in 1..Len(ids) : WGood(ids[i])) \/ ~Guard("refused_write_reported")
               THEN [http |-> 204, entries |-> <<>>]
               ELSE [http |-> 207, entries |-> [i \in 1..Len(ids) |-> [id |-> ids[i], status |-> TRUE, zero |-> WGood(ids[i])]]]
WriteList(ids) == /\ Out("WriteList", "none", ids, "wshape", "none", 0) /\ UNCHANGED <<val, subscribed, twin, blocked>>
WLists == {w \in UNION {[1..n -> WIds] : n \in 1..MaxList} :
             \A i, j \in 1..Len(w) : (i # j /\ WGood(w[i])) => w[i] # w[j]}      \* a cell is written once per request
Lists == UNION {[1..n -> Ids] : n \in 1..MaxList}
Next == \/ \E t \in Tok : LocalSet(t) \/ RemoteWrite(t) \/ GetterRead(t) \/ RemoteWriteSub(t) \/ PanickyWrite(t)
        \/ RemoteRead \/ AccRead \/ Sub \/ Unsub \/ SubTwin \/ UnsubTwin
        \/ \E ids \in Lists : ReadList(ids)
        \/ \E ids \in WLists : WriteList(ids)
Spec == Init /\ [][Next]_vars

\* ---- C09 / C11 on the design
ReadsSeeLastWrite == last.a \in {"RemoteRead", "AccRead", "GetterRead"} /\ R => last.r = val
NoWriteWithoutPw == [][ (last'.a \in {"RemoteWrite", "RemoteWriteSub"} /\ ~W) => (val' = val /\ last'.cb = "none") ]_vars
NoValueWithoutPr == last.a \in {"RemoteRead", "AccRead", "GetterRead"} /\ ~R => last.r \in {"status", "novalue"}
NoEventsWithoutEv == ~E => (~subscribed /\ (last.a = "LocalSet" => last.ev = 0))
ShapeOK(ids) == LET s == Shape(ids) IN
                  /\ Len(s.entries) = Len(ids)
                  /\ \A i \in 1..Len(ids) : /\ s.entries[i].id = ids[i]
                                             /\ (s.entries[i].value \/ s.entries[i].status)      \* a value or an error status
                                             /\ (~EntryOK(ids[i]) => ~s.entries[i].value)
                  /\ (s.http = 207 => \A i \in 1..Len(ids) : s.entries[i].status)             \* multi-status: a status everywhere
                  /\ (s.http = 200 <=> \A i \in 1..Len(ids) : EntryOK(ids[i]))
WShapeOK(ids) == LET s == WShape(ids)
                     allgood == \A i \in 1..Len(ids) : WGood(ids[i]) IN
                  /\ (s.http = 204 <=> allgood)
                  /\ (~allgood => /\ Len(s.entries) = Len(ids)
                                  /\ \A i \in 1..Len(ids) : /\ s.entries[i].id = ids[i] /\ s.entries[i].status
                                                             /\ (s.entries[i].zero <=> WGood(ids[i])))
\* a change made by a controller reaches the remote-update callback (C09), whatever happened to earlier callbacks
CallbackReached == [][ (last'.a = "RemoteWrite" /\ W /\ last'.tok # val) => last'.cb = last'.tok ]_vars
ShapeRule == /\ last.a = "ReadList" => ShapeOK(last.ids)
             /\ last.a = "WriteList" => WShapeOK(last.ids)
             /\ (last.a = "RemoteWrite" /\ ~W) => last.r = "status"
View == <<val, subscribed, twin, blocked>>
=======================================================================
