---------------------------- MODULE ConnRead ----------------------------
(* Design specification of the read path of an encrypted HAP connection.
   C07  Reads on an encrypted connection deliver exactly the bytes sent

   Code anchors: hap/connection.go:65-89 (DecryptedRead: per-call buffered reader, decrypted remainder),
   crypto/secure_session.go:91-134 (Decrypt: loops until a frame shorter than 1024 bytes).  Byte offsets are integers, the
   real sizes are used (frame 1024, header+tag 18, buffered reader 4096).
   Weak = {} is the intended design (one persistent buffered reader, one complete frame per step, remainder kept until
   it is empty, a timeout loses nothing); each named guard in Weak re-introduces one deviation of the unrepaired code. *)
EXTENDS Integers, Sequences, FiniteSets, TLC
CONSTANTS F,        \* max plaintext per frame (1024)
          OVH,      \* header+tag bytes per frame (18)
          BUFSZ,    \* buffered-reader size (4096)
          MsgLens,  \* set of message lengths to choose from
          MaxMsgs, CallerBufs, Weak

VARIABLES msgs,      \* scenario: sequence of plaintext message lengths (chosen in Init)
          arrived,   \* wire bytes delivered by the network so far
          taken,     \* wire bytes pulled from the socket into the buffered reader
          consumed,  \* wire bytes consumed by the frame decoder
          ctr,       \* frames decrypted
          rem,       \* decrypted plaintext not yet handed to the caller: <<from, to>> plaintext offsets
          hasRem,    \* readBuffer # nil
          delivered, \* plaintext offset up to which the caller has received bytes (ideal)
          holes,     \* plaintext bytes skipped (lost) so far
          res,       \* result of the last Read: "none" | "data" | "eof" | "error" | "timeout" | "blocked"
          desync,    \* decoder no longer aligned with frame boundaries
          act        \* the last action (for behaviour generation)
vars == <<msgs, arrived, taken, consumed, ctr, rem, hasRem, delivered, holes, res, desync, act>>

\* ---- frame layout of a scenario
RECURSIVE FramesOf(_)
FramesOf(L) == IF L <= F THEN <<L>> ELSE <<F>> \o FramesOf(L - F)
RECURSIVE AllFrames(_)
AllFrames(ms) == IF ms = <<>> THEN <<>> ELSE FramesOf(Head(ms)) \o AllFrames(Tail(ms))
Fr == AllFrames(msgs)                       \* plaintext length of each frame
RECURSIVE SumTo(_, _)
SumTo(s, k) == IF k = 0 THEN 0 ELSE s[k] + SumTo(s, k-1)
PEnd(k) == SumTo(Fr, k)                      \* plaintext offset after frame k
WEnd(k) == PEnd(k) + k * OVH                 \* wire offset after frame k
NF == Len(Fr)
WireLen == WEnd(NF)
Min(a, b) == IF a < b THEN a ELSE b

Init == /\ msgs \in UNION {[1..n -> MsgLens] : n \in 1..MaxMsgs}
        /\ arrived = 0 /\ taken = 0 /\ consumed = 0 /\ ctr = 0
        /\ rem = <<0, 0>> /\ hasRem = FALSE /\ delivered = 0 /\ holes = 0
        /\ res = "none" /\ desync = FALSE /\ act = [a |-> "none", x |-> 0, to |-> FALSE]

\* network delivers more bytes: up to a frame boundary, or cutting a frame in the middle
CutPoints == {WEnd(k) : k \in 1..NF} \cup {WEnd(k) - 9 : k \in 1..NF} \cup {WEnd(k-1) + 1 : k \in 1..NF} \cup {WireLen}
Arrive == /\ arrived < WireLen
          /\ \E p \in CutPoints : p > arrived /\ arrived' = p /\ act' = [a |-> "Arrive", x |-> p, to |-> FALSE]
          /\ UNCHANGED <<msgs, taken, consumed, ctr, rem, hasRem, delivered, holes, res, desync>>

\* pull from the socket whatever is there, at most BUFSZ (bufio fill)
Pull(t) == Min(arrived, t + BUFSZ)

\* decode as many frames as one DecryptedRead call does, given bytes available up to `avail`.
\* returns <<frames decoded, stoppedOnShortFrame>>
RECURSIVE Decode(_, _, _)
Decode(k, avail, first) ==
  IF k + 1 > NF \/ WEnd(k+1) > avail THEN <<k, FALSE>>
  ELSE IF "frame_at_a_time" \notin Weak THEN <<k+1, TRUE>>          \* intended: one complete frame per call
  ELSE IF Fr[k+1] < F THEN <<k+1, TRUE>>                              \* code: stop at the first frame shorter than F
  ELSE Decode(k+1, avail, FALSE)

CompleteFramePending == \E k \in 1..NF : WEnd(k) <= arrived /\ PEnd(k) > delivered + holes

\* Read(b) when a remainder exists: hap/connection.go:79-88
ReadRem(b) ==
  /\ hasRem
  /\ LET have == rem[2] - rem[1] IN
     IF have = 0
     THEN /\ res' = "eof" /\ hasRem' = FALSE /\ UNCHANGED <<rem, delivered>>     \* exhausted bytes.Buffer reports EOF
     ELSE LET n == Min(b, have) IN
          /\ res' = "data"
          /\ delivered' = delivered + n
          /\ rem' = <<rem[1] + n, rem[2]>>
          /\ hasRem' = IF "remainder_not_reported_as_eof" \in Weak
                        THEN ~(n < b)                                  \* code: cleared only when n < len(b)
                        ELSE (n < have)                                 \* intended: cleared when empty
  /\ UNCHANGED <<msgs, arrived, taken, consumed, ctr, holes, desync>>

\* Read(b) with no remainder: pull, decode, hand out
ReadFresh(b, timeout) ==
  /\ ~hasRem
  /\ IF desync THEN /\ res' = "error" /\ UNCHANGED <<taken, consumed, ctr, rem, hasRem, delivered, holes, desync>>
     ELSE
     LET t2 == Pull(IF "readahead_kept_across_calls" \in Weak THEN consumed ELSE taken)
         d  == Decode(ctr, t2, TRUE)
         k2 == d[1]
         done == d[2] IN
     IF done
     THEN \* at least one frame decoded and the call returns
          LET n == Min(b, PEnd(k2) - PEnd(ctr)) IN
          /\ ctr' = k2
          /\ consumed' = WEnd(k2)
          /\ taken' = IF "readahead_kept_across_calls" \in Weak THEN WEnd(k2) ELSE t2
          /\ desync' = ("readahead_kept_across_calls" \in Weak /\ t2 > WEnd(k2))   \* read-ahead dropped with the per-call reader
          /\ res' = "data"
          /\ delivered' = delivered + n
          /\ rem' = <<PEnd(ctr) + n, PEnd(k2)>>
          /\ hasRem' = IF "remainder_not_reported_as_eof" \in Weak THEN ~(n < b) ELSE (PEnd(ctr) + n < PEnd(k2))
          /\ UNCHANGED holes
     ELSE \* not enough bytes for the call to finish: block, or time out
          IF timeout
          THEN /\ res' = IF CompleteFramePending THEN "timeout_needless" ELSE "timeout"
               /\ IF "timeout_keeps_partial_frame" \in Weak
                  THEN \* code: counter advanced for the frames already opened, their plaintext and the partial bytes are gone
                       /\ ctr' = k2 /\ holes' = holes + (PEnd(k2) - PEnd(ctr))
                       /\ consumed' = t2 /\ taken' = t2
                       /\ desync' = (t2 > WEnd(k2))
                  ELSE /\ taken' = t2 /\ UNCHANGED <<ctr, holes, consumed, desync>>
               /\ UNCHANGED <<rem, hasRem, delivered>>
          ELSE /\ res' = IF CompleteFramePending THEN "blocked_needless" ELSE "blocked"
               /\ UNCHANGED <<taken, consumed, ctr, rem, hasRem, delivered, holes, desync>>
  /\ UNCHANGED <<msgs, arrived>>

Read == \E b \in CallerBufs :
          \/ ReadRem(b) /\ act' = [a |-> "Read", x |-> b, to |-> TRUE]
          \/ \E to \in BOOLEAN : ReadFresh(b, to) /\ act' = [a |-> "Read", x |-> b, to |-> to]
\* An earlier connection of the same peer is closed by the server now: the peer had connected again from the same remote
\* address (same source port) before the server noticed that the old connection was dead.  Sessions are stored by remote
\* address; closing a connection removes the session only while it still belongs to that connection (guard
\* session_removed_by_owner_only).  Without the guard this connection loses its keys and delivers ciphertext.
OldClosed == /\ act.a = "Arrive"
             /\ act' = [a |-> "OldClosed", x |-> 0, to |-> FALSE]
             /\ desync' = (desync \/ "session_removed_by_owner_only" \in Weak)
             /\ UNCHANGED <<msgs, arrived, taken, consumed, ctr, rem, hasRem, delivered, holes, res>>
Next == Arrive \/ Read \/ OldClosed
Spec == Init /\ [][Next]_vars

\* ---- the ideal reader (the monitor)
NoSpuriousEOFOrError == res \notin {"eof", "error"}
NoNeedlessBlock == res \notin {"blocked_needless", "timeout_needless"}
ExactBytes == holes = 0

View == <<msgs, arrived, taken, consumed, ctr, rem, hasRem, delivered, holes, res, desync>>
=======================================================================
