---------------------------- MODULE StorageCrashTrace ----------------------------
(* Monitor for C19: one line per (scenario, crash point): what a fresh store on the same directory read after the child
   process had been killed there.  reads = "old" | "new" | "other";
   follow = "next" when a short, a long, an empty and a medium value written to the same key afterwards were each read back exactly *)
EXTENDS Naturals, Sequences, FiniteSets, TLC, Json, IOUtils
VARIABLES l
Trace == ndJsonDeserialize(IOEnv.TRACE)
Report(rule, ok) == IF ok THEN TRUE ELSE PrintT(<<"VIOL", rule, l>>)
Init == l = 1
Next == /\ l <= Len(Trace)
        /\ LET e == Trace[l] IN
           /\ Report("AtomicRule", e.reads \in {"old", "new"})
           /\ Report("Completed", ~e.killed => (e.reads = "new" \/ e.op = "transport"))
           /\ Report("OthersUntouched", e.others_ok)
           /\ Report("NoTempListed", ~e.temp_listed)
           \* phase "next" of StorageCrash.tla: complete writes of other values after the restart are read back exactly
           /\ Report("FollowUp", e.follow = "next")
        /\ l' = l + 1
Accepted == TLCGet("stats").diameter = Len(Trace) + 1
=======================================================================
