---------------------------- MODULE RobustTrace ----------------------------
(* Monitor for C13: one line per concrete malformed message sent to the real server in a scenario:
   answered (a well-formed HTTP response arrived), dropped (the connection ended instead), panics (handler panics logged
   for this connection), closedAfter (the server closed after a complete response), sameOK / rejectedStarts (a correct
   handshake on the same connection and the rejected starts it needed), newOK (a correct handshake on a new connection). *)
EXTENDS Naturals, Sequences, FiniteSets, TLC, Json, IOUtils
VARIABLES l
Trace == ndJsonDeserialize(IOEnv.TRACE)
Report(rule, ok) == IF ok THEN TRUE ELSE PrintT(<<"VIOL", rule, l>>)
Init == l = 1
Next == /\ l <= Len(Trace)
        /\ LET e == Trace[l] IN
           /\ Report("NoPanic", e.panics = 0)
           /\ Report("Answered", e.answered /\ ~e.dropped)
           /\ Report("Recovers", e.newOK)
           \* the correct messages that lead to the scenario's state are accepted (a correct handshake succeeds)
           /\ Report("Recovers", e.prefixOK)
           /\ Report("Recovers", (~e.closedAfter /\ e.answered) => (e.sameOK /\ e.rejectedStarts <= 1))
        /\ l' = l + 1
Accepted == TLCGet("stats").diameter = Len(Trace) + 1
=======================================================================
