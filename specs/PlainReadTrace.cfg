INIT Init
NEXT Next
POSTCONDITION Accepted
CHECK_DEADLOCK FALSE
