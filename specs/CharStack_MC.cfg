SPECIFICATION Spec
CONSTANTS
  Perms = {"pr", "pw", "ev"}
  Tok = {"v0", "v1", "v2"}
  Ids = {"e1", "e2", "wo", "missing"}
  MaxList = 3
  Weak = {}
INVARIANTS ReadsSeeLastWrite NoValueWithoutPr NoEventsWithoutEv ShapeRule
PROPERTIES NoWriteWithoutPw
CHECK_DEADLOCK FALSE
