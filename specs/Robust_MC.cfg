SPECIFICATION Spec
CONSTANTS Weak = {}
INVARIANTS Answered Recovers
CHECK_DEADLOCK FALSE
