INIT Init
NEXT Next
INVARIANT Consistent
CHECK_DEADLOCK FALSE
