SPECIFICATION Spec
CONSTANTS
  MaxFrag = 3
  Tags = {10, 11}
  MaxLen = 7
  MaxSets = 3
  Weak = {}
INVARIANTS FragmentSize RoundTrip CutRule EverySetIsAnItem
CHECK_DEADLOCK FALSE
