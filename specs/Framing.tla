---------------------------- MODULE Framing ----------------------------
(* Design specification of the sending side: how a sequence of messages becomes frames.
   C06  Secure framing round-trips every payload in the specified wire format

   Code anchors:
     crypto/packet.go:18-45           packetiser: at most 1024 plaintext bytes per frame, read from an io.Reader
     crypto/secure_session.go:66-88   per frame: nonce = counter (continues across messages), AAD = 2-byte LE length
   The source reader delivers a payload in chunks chosen by a chunking policy; the frames must not depend on it. *)
EXTENDS Naturals, Sequences, FiniteSets, TLC

CONSTANTS F,           \* 1024
          MsgLens,     \* payload lengths to choose from
          MaxMsgs,
          Chunkings,   \* "full" | "one_byte" | "halves" | "data_with_eof"
          Weak
VARIABLES msgs,   \* scenario: sequence of [len, chunk]
          k,      \* messages encrypted so far
          ctr,    \* frame counter
          out     \* frames so far: sequence of [len, ctr, msg]
vars == <<msgs, k, ctr, out>>
Guard(g) == g \notin Weak

RECURSIVE FramesOf(_)
FramesOf(n) == IF n = 0 THEN <<>> ELSE IF n <= F THEN <<n>> ELSE <<F>> \o FramesOf(n - F)

\* what the packetiser sees: the size of the first Read result under a chunking policy
FirstRead(n, chunk) == IF n = 0 THEN 0
                       ELSE IF chunk = "one_byte" THEN 1
                       ELSE IF chunk = "halves" THEN (IF n = 1 THEN 1 ELSE n \div 2)
                       ELSE IF n < F THEN n ELSE F
\* frames the sender produces for a message
Produced(n, chunk) ==
  IF Guard("reader_filled_before_framing") THEN FramesOf(n)
  ELSE \* code before the repair: one Read per frame, a short Read ends the message
       IF n = 0 THEN <<>> ELSE
       LET fr == FirstRead(n, chunk) IN IF fr < F /\ fr < n THEN <<fr>> ELSE FramesOf(n)

Init == /\ msgs \in UNION {[1..m -> [len : MsgLens, chunk : Chunkings]] : m \in 1..MaxMsgs}
        /\ k = 0 /\ ctr = 0 /\ out = <<>>
RECURSIVE Number(_, _, _)
Number(fs, c, m) == IF fs = <<>> THEN <<>> ELSE <<[len |-> Head(fs), ctr |-> c, msg |-> m]>> \o Number(Tail(fs), c + 1, m)
Encrypt == /\ k < Len(msgs)
           /\ LET m == msgs[k + 1]
                  fs == Produced(m.len, m.chunk)
                  c0 == IF Guard("counter_continues_across_messages") THEN ctr ELSE 0 IN
              /\ out' = out \o Number(fs, c0, k + 1)
              /\ ctr' = c0 + Len(fs)
           /\ k' = k + 1 /\ UNCHANGED msgs
Next == Encrypt
Spec == Init /\ [][Next]_vars

RECURSIVE Sum(_)
Sum(s) == IF s = <<>> THEN 0 ELSE Head(s).len + Sum(Tail(s))
RECURSIVE SumLens(_, _)
SumLens(ms, n) == IF n = 0 THEN 0 ELSE ms[n].len + SumLens(ms, n - 1)
\* ---- C06 (structure; the bytes are compared with the reference framing by the harness)
FrameSize == \A i \in 1..Len(out) : out[i].len >= 1 /\ out[i].len <= F
Counters == \A i \in 1..Len(out) : out[i].ctr = i - 1
Complete == Sum(out) = SumLens(msgs, k)
OnlyLastShort == \A i \in 1..Len(out) : (out[i].len < F) => (i = Len(out) \/ out[i + 1].msg # out[i].msg)
=======================================================================
