---------------------------- MODULE PlainReadTrace ----------------------------
(* Monitor for PlainRead.tla: one line per step of a word executed on a real, unencrypted hap.Connection.
   scenario: ends = byte offset of the end of each request, switch = the request whose response installs the session.
   step: a, ret (bytes the read returned in this step, -1 = none), err, plainok (they are the next bytes of the wire),
         pending (a read is still blocked after the step), consumed (plaintext bytes returned so far), handled. *)
EXTENDS Integers, Sequences, FiniteSets, TLC, Json, IOUtils
VARIABLES l, ends, sw
Trace == ndJsonDeserialize(IOEnv.TRACE)
Report(rule, ok) == IF ok THEN TRUE ELSE PrintT(<<"VIOL", rule, l>>)
Init == l = 1 /\ ends = <<>> /\ sw = 0
Min(a, b) == IF a < b THEN a ELSE b
Next ==
  /\ l <= Len(Trace)
  /\ LET e == Trace[l] IN
     IF e.ev = "scenario" THEN ends' = e.ends /\ sw' = e.switch
     ELSE
       /\ UNCHANGED <<ends, sw>>
       \* nothing of a later request is handed out in plaintext before the response of the earlier one was written
       /\ Report("NoReadAhead", e.consumed <= ends[Min(e.handled + 1, Len(ends))])
       \* nothing behind the request that installs the session is ever handed out in plaintext
       /\ Report("NoReadAhead", sw # 0 => e.consumed <= ends[sw])
       \* what is handed out is what arrived, in order
       /\ Report("ExactBytes", e.plainok)
       \* a read that the design lets return returns (with data); an aborted read returns with a timeout and without data
       \* (an attack word is no behaviour of the intended design: only what it must NOT achieve is judged)
       /\ Report("Progress", (e.a = "ReadReturn" /\ ~e.attack) => (e.ret >= 1 /\ e.err = "none"))
       /\ Report("Progress", (e.a = "Abort" /\ e.ret # -1) => (e.ret = 0 /\ e.err # "none"))
       /\ Report("Progress", e.a = "Abort" => ~e.pending)
       \* through the session nothing comes out as plaintext (the bytes are no frames)
       /\ Report("NoReadAhead", e.a = "ReadSession" => e.ret <= 0)
  /\ l' = l + 1
Accepted == TLCGet("stats").diameter = Len(Trace) + 1
=======================================================================
