---------------------------- MODULE CharacteristicGen ----------------------------
EXTENDS CharacteristicMC, Json
VARIABLES hist, bad
GInit == Init /\ hist = <<>> /\ bad = FALSE
GNext == /\ Next
         /\ hist' = Append(hist, [a |-> act'.a, cls |-> act'.cls, remote |-> act'.remote, exp |-> out'])
         /\ bad' = (bad \/ ~TypeOK' \/ ~NoPanic' \/ ~NoValueWithoutPr' \/ ~NoEventsWithoutEv' \/ (act'.a = "Update" /\ "pw" \notin Perms /\ cbRemote' # cbRemote))
MaxLen == 2
WordBound == Len(hist) <= MaxLen
EmitWord == Len(hist) = MaxLen => PrintT(<<"BEH", ToJson(hist)>>)
\* the configuration a counterexample needs travels with the attack word
NoAttack == IF bad THEN ~PrintT(<<"BEH", ToJson(<<[a |-> "Config", fmt |-> Format, perms |-> Perms, bounded |-> (Min = 0)]>> \o hist)>>) ELSE TRUE
AttackView == <<View, bad>>
=======================================================================
