---------------------------- MODULE Catalog ----------------------------
(* The contract between the library's constructors and the bundled HomeKit metadata, evaluated over a finite snapshot.
   C15  The characteristic and service catalog matches the HomeKit metadata
   This property has no state and no transitions; TLA+ serves as the executable statement of the contract and TLC evaluates
   it exhaustively over the snapshot: metadata records (normalised from gen/metadata.json by a script that shares no code
   with the Go generator) and one record per object returned by every exported constructor (dumped by the harness).
   Record kinds:  meta-char, meta-svc, ctor-char, ctor-svc, ctor-acc. *)
EXTENDS Naturals, Sequences, FiniteSets, TLC, Json, IOUtils
VARIABLES l
Trace == ndJsonDeserialize(IOEnv.TRACE)
SetOf(s) == {s[i] : i \in 1..Len(s)}
Report(rule, ok) == IF ok THEN TRUE ELSE PrintT(<<"VIOL", rule, l>>)
Ctors(kind) == {k \in 1..Len(Trace) : Trace[k].ev = kind /\ ~Trace[k].panic}
CharFor(t) == {k \in Ctors("ctor-char") : Trace[k].type = t}
SvcFor(t) == {k \in Ctors("ctor-svc") : Trace[k].type = t}
Init == l = 1
Next ==
  /\ l <= Len(Trace)
  /\ LET e == Trace[l] IN
     CASE e.ev = "meta-char" ->
            /\ Report("HasConstructor", CharFor(e.type) # {})
            /\ Report("Conforms", \A k \in CharFor(e.type) :
                        /\ Trace[k].format = e.format /\ SetOf(Trace[k].perms) = SetOf(e.perms) /\ Trace[k].unit = e.unit
                        /\ Trace[k].hasmin = e.hasmin /\ Trace[k].hasmax = e.hasmax /\ Trace[k].hasstep = e.hasstep
                        /\ Trace[k].min = e.min /\ Trace[k].max = e.max /\ Trace[k].step = e.step)
       [] e.ev = "meta-svc" ->
            /\ Report("HasConstructor", SvcFor(e.type) # {})
            /\ Report("ServiceOK", \A k \in SvcFor(e.type) : SetOf(e.required) \subseteq SetOf(Trace[k].chartypes))
       [] e.ev = "ctor-char" ->
            /\ Report("Usable", ~e.panic)
            /\ Report("DeclaredType", (~e.panic /\ e.hasconst) => e.type = e.declared)
            /\ Report("DeclaredType", ~e.panic => e.hasconst)
            /\ Report("DefaultOK", (~e.panic /\ e.readable) => (e.valclass = e.fmtclass /\ e.inrange))
       [] e.ev = "ctor-svc" ->
            /\ Report("Usable", ~e.panic /\ ~e.nilchars)
            /\ Report("DeclaredType", (~e.panic /\ e.hasconst) => e.type = e.declared)
            /\ Report("ServiceOK", ~e.panic => Cardinality(SetOf(e.chartypes)) = Len(e.chartypes))
       [] e.ev = "ctor-acc" ->
            /\ Report("Usable", ~e.panic /\ e.addable /\ e.services >= 1)
            /\ Report("DefaultOK", e.inrange)       \* the values it stored lie within the ranges it declared
       [] OTHER -> TRUE
  /\ l' = l + 1
Accepted == TLCGet("stats").diameter = Len(Trace) + 1
=======================================================================
