---------------------------- MODULE PlainReadGen ----------------------------
EXTENDS PlainReadMC, Json
VARIABLES hist, bad
GInit == Init /\ hist = <<>> /\ bad = FALSE
GNext == /\ Next /\ last'.a # "none" /\ ~(handled = N /\ arrived = Total /\ UNCHANGED vars)
         /\ hist' = Append(hist, [a |-> last'.a, n |-> last'.n])
         /\ bad' = (bad \/ ~NoReadAhead' \/ ~NoPlainAfterSwitch')
EmitEdge == Len(hist) > 0 => PrintT(<<"BEH", ToJson(hist)>>)
EdgeView == <<View, last>>
NoAttack == IF bad THEN ~PrintT(<<"BEH", ToJson(hist)>>) ELSE TRUE
AttackView == <<View, bad>>
=======================================================================
