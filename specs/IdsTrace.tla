---------------------------- MODULE IdsTrace ----------------------------
(* Monitor for C14: one line per container built from a construction word with real accessories, built twice.
   aids / iids: ids read from the Go objects of the accepted accessories (first build), aids2 / iids2: second build,
   jaids / jiids: ids as they appear in the JSON served to controllers, chars: one record per characteristic of the JSON. *)
EXTENDS Naturals, Sequences, FiniteSets, TLC, Json, IOUtils
VARIABLES l
Trace == ndJsonDeserialize(IOEnv.TRACE)
SetOf(s) == {s[i] : i \in 1..Len(s)}
Report(rule, ok) == IF ok THEN TRUE ELSE PrintT(<<"VIOL", rule, l>>)
ValidPerms == {"pr", "pw", "ev", "aa", "tw", "hd", "wr"}
Init == l = 1
Next ==
  /\ l <= Len(Trace)
  /\ LET e == Trace[l] IN
     /\ Report("UniqueRule", Cardinality(SetOf(e.aids)) = Len(e.aids) /\ 0 \notin SetOf(e.aids))
     /\ Report("UniqueRule", \A k \in 1..Len(e.iids) : Cardinality(SetOf(e.iids[k])) = Len(e.iids[k]) /\ 0 \notin SetOf(e.iids[k]))
     \* an accessory that leaves its id to the container is never refused
     /\ Report("UniqueRule", e.autorej = 0)
     /\ Report("StableRule", e.aids = e.aids2 /\ e.iids = e.iids2)
     \* the ids do not depend on how often the accessories were added to a container before
     /\ Report("StableRule", e.iids3 = e.iids)
     \* a service added to an accessory that is already in a container gets ids too
     /\ Report("UniqueRule", Cardinality(SetOf(e.late)) = Len(e.late) /\ 0 \notin SetOf(e.late))
     /\ Report("WellFormedRule", e.jsonok /\ e.jaids = e.aids /\ e.jiids = e.iids)
     /\ Report("WellFormedRule", \A k \in 1..Len(e.chars) : e.chars[k].hasiid /\ e.chars[k].hastype /\ e.chars[k].hasformat
                                     /\ e.chars[k].perms # <<>> /\ SetOf(e.chars[k].perms) \subseteq ValidPerms)
     /\ Report("WellFormedRule", e.svcsok)
     /\ Report("NoPanic", ~e.panic)
  /\ l' = l + 1
Accepted == TLCGet("stats").diameter = Len(Trace) + 1
=======================================================================
