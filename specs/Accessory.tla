---------------------------- MODULE Accessory ----------------------------
(* Top-level composition: one accessory on one storage directory, several controllers, several connections.
   It puts the slices that the other modules check in isolation into ONE behaviour space, so that end-to-end histories
   (pair -> verify -> subscribe -> write -> event -> remove pairing -> discoverable again -> restart -> verify again) are
   explored and replayed as a whole:

     pairing (PairSetup.tla, abstracted to its outcome)      Pair(k, c)      stores controller c on connection k
     verification (Access.tla)                                Verify(k, c)    succeeds iff c is stored
     gating (Access.tla)                                      Read(k) / Write(k, v) / Sub(k) / Unsub(k) / RemovePairing(k, c) / AddPairing(k, c)
     notification (Notify.tla)                                events of a write / local change
     lifecycle (Lifecycle.tla)                                Stop / Start    connections and subscriptions vanish, pairings stay
     discoverability                                          sf = 1 iff no controller is stored
     overlapping requests of two connections                  RemoveDuringVerify(k, c, k2)   a pairing removed while its key is looked up

   Deliberate deviation of the code from HAP, named: when a pairing is removed, sessions already verified with it stay
   verified (HAP requires them to be torn down).  Guard "sessions_of_removed_pairing_closed" is therefore in CodeWeak; no
   listed property speaks about it.  A guard in Weak is MISSING. *)
EXTENDS Naturals, Sequences, FiniteSets, TLC
CONSTANTS Conn, Ctrl, Weak
VARIABLES running, paired, who, subs, val, sf, got, last, done,
          memo     \* controllers whose key a lookup has kept although the store was changed since (empty in the intended design)
vars == <<running, paired, who, subs, val, sf, got, last, done, memo>>
Guard(g) == g \notin Weak
None == "none"

Init == /\ running = TRUE /\ paired = {} /\ who = [k \in Conn |-> None]      \* who[k]: the controller connection k is verified as
        /\ subs = {} /\ val = 0 /\ sf = 1 /\ got = {} /\ last = <<"init", None, None, None>> /\ done = {} /\ memo = {}
Quiet == got' = {}
Verified(k) == who[k] # None

\* pair-setup with the right setup code on a plaintext connection (its message-level machine is PairSetup.tla)
\* A connection's pair-setup machine runs once: after its final message it refuses the start of a second exchange, and
\* that refusal resets it, so that a third attempt on the same connection runs again (setup_server_controller.go: Handle).
Pair(k, c) == /\ running /\ ~Verified(k)
              /\ IF k \in done
                 THEN /\ UNCHANGED <<paired, sf>> /\ done' = done \ {k} /\ last' = <<"Pair", k, c, "refused">>
                 ELSE /\ paired' = paired \cup {c} /\ done' = done \cup {k}
                      /\ sf' = IF Guard("sf_updated_on_pair") THEN 0 ELSE sf
                      /\ last' = <<"Pair", k, c, "ok">>
              /\ Quiet /\ UNCHANGED <<running, who, subs, val>>
\* pair-verify as controller c (its message-level machine is Access.tla), on a plaintext connection or again inside a
\* session (the hand-over is HonestRun.tla's V3V4): a refusal leaves the connection as it was, subscriptions stay
Verify(k, c) == /\ running
                /\ LET ok == c \in paired \/ c \in memo \/ ~Guard("verify_needs_stored_key") IN
                   /\ who' = [who EXCEPT ![k] = IF ok THEN c ELSE @]
                   /\ last' = <<"Verify", k, c, IF ok THEN "ok" ELSE "refused">>
                /\ Quiet /\ UNCHANGED <<running, paired, subs, val, sf, done>>
Gate(k) == Verified(k) \/ ~Guard("authenticate_checks_verified")
Read(k) == /\ running /\ Quiet
           /\ last' = <<"Read", k, None, IF Gate(k) THEN "ok" ELSE "refused">>
           /\ UNCHANGED <<running, paired, who, subs, val, sf, done>>
Sub(k) == /\ running /\ Quiet
          /\ subs' = IF Gate(k) THEN subs \cup {k} ELSE subs
          /\ last' = <<"Sub", k, None, IF Gate(k) THEN "ok" ELSE "refused">>
          /\ UNCHANGED <<running, paired, who, val, sf, done>>
Unsub(k) == /\ running /\ Quiet
            /\ subs' = IF Gate(k) THEN subs \ {k} ELSE subs
            /\ last' = <<"Unsub", k, None, IF Gate(k) THEN "ok" ELSE "refused">>
            /\ UNCHANGED <<running, paired, who, val, sf, done>>
Targets(origin) == {x \in subs : x # origin \/ ~Guard("skip_originator")}
Write(k, v) == /\ running
               /\ IF Gate(k)
                  THEN /\ val' = v /\ got' = IF v # val THEN Targets(k) ELSE {}
                       /\ last' = <<"Write", k, v, "ok">>
                  ELSE /\ UNCHANGED val /\ Quiet /\ last' = <<"Write", k, v, "refused">>
               /\ UNCHANGED <<running, paired, who, subs, sf, done>>
LocalSet(v) == /\ running /\ val' = v /\ got' = IF v # val THEN Targets("app") ELSE {}
               /\ last' = <<"Local", "app", v, "ok">> /\ UNCHANGED <<running, paired, who, subs, sf, done>>
RemovePairing(k, c) ==
  /\ running
  /\ IF Gate(k)
     THEN /\ paired' = paired \ {c}
          /\ sf' = IF paired' = {} /\ Guard("sf_updated_on_unpair") THEN 1 ELSE sf
          \* HAP: sessions of the removed controller are closed; the code keeps them (named deviation)
          /\ who' = IF Guard("sessions_of_removed_pairing_closed") THEN [x \in Conn |-> IF who[x] = c THEN None ELSE who[x]] ELSE who
          /\ subs' = IF Guard("sessions_of_removed_pairing_closed") THEN {x \in subs : who[x] # c} ELSE subs
          /\ last' = <<"Remove", k, c, "ok">>
     ELSE /\ UNCHANGED <<paired, sf, who, subs>> /\ last' = <<"Remove", k, c, "refused">>
  /\ Quiet /\ UNCHANGED <<running, val, done>>
\* a verified controller stores another controller's key (/pairings, method add); same notification path as pair-setup
AddPairing(k, c) ==
  /\ running
  /\ IF Gate(k)
     THEN /\ paired' = paired \cup {c}
          /\ sf' = IF Guard("sf_updated_on_pair") THEN 0 ELSE sf
          /\ last' = <<"Add", k, c, "ok">>
     ELSE /\ UNCHANGED <<paired, sf>> /\ last' = <<"Add", k, c, "refused">>
  /\ Quiet /\ UNCHANGED <<running, who, subs, val, done>>
Close(k) == /\ running /\ who' = [who EXCEPT ![k] = None] /\ subs' = subs \ {k}
            /\ done' = done \ {k}
            /\ Quiet /\ last' = <<"Close", k, None, "ok">> /\ UNCHANGED <<running, paired, val, sf>>
Stop == /\ running /\ running' = FALSE /\ who' = [k \in Conn |-> None] /\ subs' = {}
        /\ done' = {}
        /\ Quiet /\ last' = <<"Stop", None, None, None>> /\ UNCHANGED <<paired, val, sf>>
Start == /\ ~running /\ running' = TRUE /\ val' = 0
         /\ sf' = IF paired = {} \/ ~Guard("sf_from_pairings") THEN 1 ELSE 0
         /\ Quiet /\ last' = <<"Start", None, None, None>> /\ UNCHANGED <<paired, who, subs, done>>

\* A pairing is removed while another connection runs pair-verify as that controller: the lookup of the key and the removal
\* overlap (linearised: the verification first, the store still holds the key).  Intended design (guard
\* lookup_reads_the_store): whoever needs a key reads the store, so nothing of the overlap outlives it.  Without the guard the
\* overlapping lookup leaves its result behind (a memo that was invalidated BEFORE the store was written) and later lookups
\* trust it - until the accessory is started again.  last[5] is the connection that verifies.
RemoveDuringVerify(k, c, k2) ==
  /\ running /\ k # k2 /\ Gate(k) /\ c \in paired
  /\ paired' = paired \ {c}
  /\ sf' = IF paired' = {} /\ Guard("sf_updated_on_unpair") THEN 1 ELSE sf
  /\ LET who1 == [who EXCEPT ![k2] = c] IN
     /\ who' = IF Guard("sessions_of_removed_pairing_closed") THEN [x \in Conn |-> IF who1[x] = c THEN None ELSE who1[x]] ELSE who1
     /\ subs' = IF Guard("sessions_of_removed_pairing_closed") THEN {x \in subs : who1[x] # c} ELSE subs
  /\ memo' = IF Guard("lookup_reads_the_store") THEN memo ELSE memo \cup {c}
  /\ last' = <<"RemoveDuring", k, c, "ok", k2>>
  /\ Quiet /\ UNCHANGED <<running, val, done>>

Plain == \/ \E k \in Conn, c \in Ctrl : Pair(k, c) \/ Verify(k, c) \/ RemovePairing(k, c) \/ AddPairing(k, c)
         \/ \E k \in Conn : (Read(k) \/ Sub(k) \/ Unsub(k) \/ Close(k) \/ \E v \in {0, 1} : Write(k, v))
         \/ \E v \in {0, 1} : LocalSet(v)
         \/ Start
Next == \/ (Plain /\ UNCHANGED memo)
        \/ (Stop /\ memo' = {})
        \/ \E k, k2 \in Conn, c \in Ctrl : RemoveDuringVerify(k, c, k2)
Spec == Init /\ [][Next]_vars

\* ---- end-to-end properties (each is the composition-level face of a listed property)
VerifiedMeansStoredOnce ==                                                   \* C03
  [][ (last'[1] = "Verify" /\ last'[4] = "ok") => last'[3] \in paired ]_vars
GatedOps ==                                                                   \* C01
  [][ (last'[1] \in {"Read", "Sub", "Unsub", "Write", "Remove", "Add", "RemoveDuring"} /\ last'[4] = "ok") => Verified(last'[2]) ]_vars
EventsToSubscribedOthers ==                                                   \* C10
  [][ got' \subseteq {k \in Conn : Verified(k) /\ k \in subs /\ k # last'[2]} ]_vars
Discoverable == running => (sf = 1 <=> paired = {})                           \* C20
RestartKeepsPairings == [][ last'[1] \in {"Stop", "Start"} => paired' = paired ]_vars   \* C20
View == <<running, paired, who, subs, val, sf, done, memo>>
=======================================================================
