SPECIFICATION Spec
CONSTANTS
  Structure = {"s1", "s2"}
  Ctrl = {"a", "b"}
  MaxGen = 3
  Weak = {}
INVARIANTS IdentityStable SfRule
PROPERTIES CnumRule PairingsPersist
CONSTRAINT Bound
VIEW View
CHECK_DEADLOCK FALSE
