---------------------------- MODULE StorageGen ----------------------------
EXTENDS StorageMC, Json
VARIABLES hist, bad
GInit == Init /\ hist = <<>> /\ bad = FALSE
GNext == /\ Next
         /\ hist' = Append(hist, [op |-> last'.op, k |-> last'.k, v |-> last'.v])
         /\ bad' = (bad \/ ~MapRule' \/ last'.ret = "mixed" \/ last'.ret = "error")
MaxLen == 4
WordBound == Len(hist) <= MaxLen
EmitWord == Len(hist) = MaxLen => PrintT(<<"BEH", ToJson(hist)>>)
EmitEdge == Len(hist) > 0 => PrintT(<<"BEH", ToJson(hist)>>)
EdgeView == <<files, last>>
SimLen == 12
EmitSim == (Len(hist) = SimLen + 1 /\ hist[SimLen + 1].op = "Reopen") => PrintT(<<"BEH", ToJson(SubSeq(hist, 1, SimLen))>>)
NoAttack == IF bad THEN ~PrintT(<<"BEH", ToJson(hist)>>) ELSE TRUE
AttackView == <<files, bad>>
=======================================================================
