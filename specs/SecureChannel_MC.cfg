SPECIFICATION Spec
CONSTANTS
  NSent = 3
  MaxWire = 3
  Weak = {}
INVARIANTS PrefixRule DetectRule
CHECK_DEADLOCK FALSE
