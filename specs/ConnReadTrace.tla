---------------------------- MODULE ConnReadTrace ----------------------------
(* Monitor for C07: the IDEAL READER judged on events recorded from the real hap.Connection over a scripted socket.
     scenario  message lengths (hence the frame layout)        arrive   wire bytes delivered up to offset p
     read      a Read(b) call starts                           ret      it returned (n, err); ok = the n bytes are exactly
     pend      it is waiting on the socket, which is empty              the next n bytes the peer sent
     fire      the driver lets a read deadline expire for the waiting call *)
EXTENDS Integers, Sequences, FiniteSets, TLC, Json, IOUtils
VARIABLES l, msgs, arrived, delivered, fired
Trace == ndJsonDeserialize(IOEnv.TRACE)
Report(rule, ok) == IF ok THEN TRUE ELSE PrintT(<<"VIOL", rule, l>>)
F == 1024
OVH == 18
RECURSIVE FramesOf(_)
FramesOf(L) == IF L = 0 THEN <<>> ELSE IF L <= F THEN <<L>> ELSE <<F>> \o FramesOf(L - F)
RECURSIVE AllFrames(_)
AllFrames(ms) == IF ms = <<>> THEN <<>> ELSE FramesOf(Head(ms)) \o AllFrames(Tail(ms))
RECURSIVE SumTo(_, _)
SumTo(s, k) == IF k = 0 THEN 0 ELSE s[k] + SumTo(s, k - 1)
Fr == AllFrames(msgs)
PEnd(k) == SumTo(Fr, k)
WEnd(k) == PEnd(k) + k * OVH
\* plaintext bytes contained in frames that have completely arrived
RECURSIVE Avail(_, _)
Avail(k, a) == IF k + 1 > Len(Fr) \/ WEnd(k + 1) > a THEN PEnd(k) ELSE Avail(k + 1, a)

Init == l = 1 /\ msgs = <<>> /\ arrived = 0 /\ delivered = 0 /\ fired = FALSE
Step ==
  /\ l <= Len(Trace)
  /\ LET e == Trace[l] IN
     CASE e.ev = "scenario" -> msgs' = e.msgs /\ arrived' = 0 /\ delivered' = 0 /\ fired' = FALSE
       [] e.ev = "arrive"   -> arrived' = e.p /\ UNCHANGED <<msgs, delivered, fired>>
       [] e.ev = "read"     -> fired' = FALSE /\ UNCHANGED <<msgs, arrived, delivered>>
       [] e.ev = "fire"     -> fired' = TRUE /\ UNCHANGED <<msgs, arrived, delivered>>
       [] e.ev = "oldclosed" -> UNCHANGED <<msgs, arrived, delivered, fired>>     \* nothing to do with this connection
       [] e.ev = "stuck"    -> /\ Report("NoNeedlessBlock", FALSE)      \* neither returned nor waiting on the socket
                               /\ UNCHANGED <<msgs, arrived, delivered, fired>>
       [] e.ev = "pend"     -> /\ Report("NoNeedlessBlock", Avail(0, arrived) <= delivered)
                               /\ UNCHANGED <<msgs, arrived, delivered, fired>>
       [] e.ev = "ret"      -> /\ Report("ExactBytes", e.ok /\ delivered + e.n <= Avail(0, arrived))
                               /\ Report("NoSpuriousEOFOrError", e.err = "none" \/ (e.err = "timeout" /\ fired))
                               /\ delivered' = delivered + e.n
                               /\ UNCHANGED <<msgs, arrived, fired>>
  /\ l' = l + 1
Next == Step
Accepted == TLCGet("stats").diameter = Len(Trace) + 1
=======================================================================
