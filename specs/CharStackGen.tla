---------------------------- MODULE CharStackGen ----------------------------
EXTENDS CharStack, Json
VARIABLES hist, bad
GInit == Init /\ hist = <<>> /\ bad = FALSE
GNext == /\ Next
         /\ hist' = Append(hist, [a |-> last'.a, tok |-> last'.tok, ids |-> last'.ids, exp |-> last'.r])
         /\ bad' = (bad \/ ~ReadsSeeLastWrite' \/ ~NoValueWithoutPr' \/ ~NoEventsWithoutEv' \/ ~ShapeRule' \/ (last'.a \in {"RemoteWrite", "RemoteWriteSub"} /\ ~W /\ (val' # val \/ last'.cb # "none")) \/ (last'.a = "RemoteWrite" /\ W /\ last'.tok # val /\ last'.cb # last'.tok))
MaxLen == 3
WordBound == Len(hist) <= MaxLen
EmitWord == Len(hist) = MaxLen => PrintT(<<"BEH", ToJson(hist)>>)
NoAttack == IF bad THEN ~PrintT(<<"BEH", ToJson(hist)>>) ELSE TRUE
AttackView == <<View, bad>>
\* list reads are independent of the register state: emit every id list once
EmitLists == TRUE
=======================================================================
