---------------------------- MODULE Lifecycle ----------------------------
(* Design specification of what persists across restarts of an accessory on one storage directory.
   C20  Identity, configuration number and discoverability persist correctly
   A guard in Weak is MISSING; Weak = {} is the intended design. *)
\* config.go:91-143 (load/save/updateConfigHash), ip_transport.go:67-136 (construction), :221-238, :294-305
\* (isPaired / updateMDNSReachability / Handle), hap/device.go:25-36 (load-or-create key pair),
\* accessory/container.go:85-136 (ContentHash without values)
EXTENDS Naturals, Sequences, FiniteSets, TLC
CONSTANTS Structure, Ctrl, MaxGen, Weak
VARIABLES disk, running, cur, txt, gen, firstId, orphan, last
vars == <<disk, running, cur, txt, gen, firstId, orphan, last>>
Guard(g) == g \notin Weak
None == "none"

\* disk: what the storage directory holds
Init == /\ disk = [uuid |-> 0, keypair |-> 0, version |-> 0, hash |-> None, pairings |-> {}]
        /\ running = FALSE /\ cur = None /\ txt = [id |-> 0, cnum |-> 0, sf |-> 0, ltpk |-> 0]
        /\ gen = 0              \* fresh-identity counter (each generated uuid / key pair is new)
        /\ firstId = <<0, 0>> /\ orphan = FALSE /\ last = <<"init">>

Start(s) ==
  /\ ~running /\ gen < MaxGen
  /\ LET newId   == disk.uuid = 0 \/ ~Guard("uuid_loaded")
         newKey  == disk.keypair = 0 \/ ~Guard("keypair_loaded")
         id      == IF newId THEN gen + 1 ELSE disk.uuid
         kp      == IF newKey THEN gen + 1 ELSE disk.keypair
         bump    == disk.hash # None /\ (disk.hash # s \/ ~Guard("hash_ignores_values"))
         ver     == IF disk.version = 0 THEN 1 ELSE IF bump /\ Guard("version_bumped") THEN disk.version + 1 ELSE disk.version
     IN /\ disk' = [disk EXCEPT !.uuid = id, !.keypair = kp, !.version = ver, !.hash = s]
        /\ gen' = IF newId \/ newKey THEN gen + 1 ELSE gen
        /\ txt' = [id |-> id, cnum |-> ver, ltpk |-> kp,
                   \* an orphaned key pair entity (see KilledStart) counts as a pairing for an implementation that only
                   \* counts entities
                   sf |-> IF (disk.pairings = {} /\ ~orphan) \/ ~Guard("sf_from_pairings") THEN 1 ELSE 0]
        /\ firstId' = IF firstId = <<0, 0>> THEN <<id, kp>> ELSE firstId
  /\ running' = TRUE /\ cur' = s /\ last' = <<"start", s, disk.hash, disk.version>> /\ UNCHANGED orphan

\* The very first start is killed (or fails) after the key pair was stored and before the rest.  Intended design: the device
\* id is stored before the key pair that is stored under it (guard id_stored_before_keypair), so the next start finds the id
\* and makes the key pair.  Without the guard the key pair entity is stored under an id that is forgotten: the next start makes
\* another id and another key pair, and the forgotten entity stays in the database for good.
KilledStart ==
  /\ ~running /\ disk.uuid = 0 /\ gen < MaxGen
  /\ gen' = gen + 1
  /\ IF Guard("id_stored_before_keypair")
     THEN disk' = [disk EXCEPT !.uuid = gen + 1] /\ UNCHANGED orphan
     ELSE orphan' = TRUE /\ UNCHANGED disk
  /\ last' = <<"killstart">> /\ UNCHANGED <<running, cur, txt, firstId>>

Stop == running /\ running' = FALSE /\ cur' = None /\ last' = <<"stop">> /\ UNCHANGED <<disk, txt, gen, firstId, orphan>>

\* Pairing identifiers: ordinary controller names, and "self" = the accessory's own device id (it is advertised in the TXT
\* record, so any peer can choose it).  Intended design: the accessory's key pair is not a pairing; a pairing operation that
\* names the accessory is refused and changes nothing (guard own_key_not_a_pairing).  Without the guard the key pair and the
\* pairings share one name space (db entities): pairing as "self" replaces the accessory's key pair by a foreign public key,
\* removing "self" deletes it, and sf is computed from the number of entities.
Self == "self"
Names == Ctrl \cup {Self}
Entities(d) == Cardinality(d.pairings \ {Self}) + (IF d.keypair # 0 THEN 1 ELSE 0)
Pair(c) == /\ running
           /\ IF c = Self /\ Guard("own_key_not_a_pairing")
              THEN UNCHANGED <<disk, txt, gen>>
              ELSE IF c = Self
              THEN /\ gen < MaxGen /\ gen' = gen + 1
                   /\ disk' = [disk EXCEPT !.keypair = gen + 1, !.pairings = @ \cup {Self}]
                   /\ txt' = [txt EXCEPT !.sf = IF Entities(disk') > 1 THEN 0 ELSE 1]
              ELSE /\ disk' = [disk EXCEPT !.pairings = @ \cup {c}] /\ UNCHANGED gen
                   /\ txt' = [txt EXCEPT !.sf = IF Guard("sf_updated_on_pair") THEN 0 ELSE @]
           /\ last' = <<"pair", c>> /\ UNCHANGED <<running, cur, firstId, orphan>>
\* removal is requested by a verified controller, so some pairing exists; the name removed is arbitrary
Unpair(c) == /\ running /\ disk.pairings # {} /\ (c \in disk.pairings \/ c = Self)
             /\ IF c = Self /\ Guard("own_key_not_a_pairing")
                THEN UNCHANGED <<disk, txt>>
                ELSE IF c = Self
                THEN /\ disk' = [disk EXCEPT !.keypair = 0, !.pairings = @ \ {Self}]
                     /\ txt' = [txt EXCEPT !.sf = IF Entities(disk') > 1 THEN 0 ELSE 1]
                ELSE /\ disk' = [disk EXCEPT !.pairings = @ \ {c}]
                     /\ txt' = [txt EXCEPT !.sf = IF disk'.pairings = {} /\ Guard("sf_updated_on_unpair") THEN 1 ELSE @]
             /\ last' = <<"unpair", c>> /\ UNCHANGED <<running, cur, gen, firstId, orphan>>
ChangeValues == running /\ last' = <<"values">> /\ UNCHANGED <<disk, running, cur, txt, gen, firstId, orphan>>

Next == (\E s \in Structure : Start(s)) \/ KilledStart \/ Stop \/ (\E c \in Names : Pair(c) \/ Unpair(c)) \/ ChangeValues
Spec == Init /\ [][Next]_vars

\* ---- C20
IdentityStable == running => (<<txt.id, txt.ltpk>> = firstId /\ disk.keypair = firstId[2])
SfRule == running => (txt.sf = 1 <=> disk.pairings = {})
CnumRule == [][ last'[1] = "start" =>
                  IF last'[3] # None /\ last'[3] # last'[2] THEN txt'.cnum > last'[4]
                  ELSE IF last'[3] # None THEN txt'.cnum = last'[4] ELSE TRUE ]_vars
PairingsPersist == [][ last'[1] \in {"start", "stop", "values"} => disk'.pairings = disk.pairings ]_vars
Bound == disk.version <= 4
View == <<disk, running, cur, txt, firstId, orphan>>
=======================================================================
