---------------------------- MODULE ConnReadGen ----------------------------
EXTENDS ConnRead, Json
VARIABLES hist, bad
GInit == Init /\ hist = <<[a |-> "Scenario", msgs |-> msgs]>> /\ bad = FALSE
GNext == /\ Next
         /\ hist' = Append(hist, [a |-> act'.a, x |-> act'.x, to |-> act'.to, exp |-> res'])
         /\ bad' = (bad \/ ~(NoSpuriousEOFOrError' /\ NoNeedlessBlock' /\ ExactBytes'))
MaxLen == 4
WordBound == Len(hist) <= MaxLen + 1
EmitWord == Len(hist) = MaxLen + 1 => PrintT(<<"BEH", ToJson(hist)>>)
EmitEdge == Len(hist) > 1 => PrintT(<<"BEH", ToJson(hist)>>)
EdgeView == <<View, act>>
SimLen == 10
EmitSim == (Len(hist) = SimLen + 2 /\ hist[SimLen + 2].a = "Read" /\ hist[SimLen + 2].x = 4096 /\ hist[SimLen + 2].to)
             => PrintT(<<"BEH", ToJson(SubSeq(hist, 1, SimLen + 1))>>)
NoAttack == IF bad THEN ~PrintT(<<"BEH", ToJson(hist)>>) ELSE TRUE
AttackView == <<View, bad>>
=======================================================================
