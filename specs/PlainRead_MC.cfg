SPECIFICATION Spec
CONSTANTS
  Bodies <- BodiesA
  Switch = 2
  Weak = {}
INVARIANTS TypeOK NoReadAhead NoPlainAfterSwitch
VIEW View
