---------------------------- MODULE LifecycleTrace ----------------------------
(* Monitor for C20 (restarts): lines recorded from real transports started and stopped on one storage directory.
   Ghost: identity at the first start, structure and c# of the previous run, the controllers paired by accepted
   pair / unpair actions. *)
EXTENDS Naturals, Sequences, FiniteSets, TLC, Json, IOUtils
VARIABLES l, first, prevS, prevC, paired
Trace == ndJsonDeserialize(IOEnv.TRACE)
SetOf(s) == {s[i] : i \in 1..Len(s)}
Report(rule, ok) == IF ok THEN TRUE ELSE PrintT(<<"VIOL", rule, l>>)
None == "none"
Init == l = 1 /\ first = <<None, None>> /\ prevS = None /\ prevC = 0 /\ paired = {}
Next ==
  /\ l <= Len(Trace)
  /\ LET e == Trace[l] IN
     IF e.ev = "reset" THEN first' = <<None, None>> /\ prevS' = None /\ prevC' = 0 /\ paired' = {}
     ELSE IF e.skipped THEN UNCHANGED <<first, prevS, prevC, paired>>
     ELSE
       LET paired2 == IF e.a = "pair" /\ e.ok THEN paired \cup {"ctrl-" \o e.x}
                      ELSE IF e.a = "unpair" /\ e.ok THEN paired \ {"ctrl-" \o e.x} ELSE paired IN
       \* an honest pairing / removal is accepted (sanity for the rules below); one that names the accessory itself may be refused
       /\ Report("ActionAccepted", e.ok \/ e.x = "self")
       /\ (e.running =>
             /\ Report("IdentityStable", first[1] = None \/ (e.id = first[1] /\ e.ltpk = first[2]))
             /\ Report("IdentityStable", e.id = e.uuidfile)
             \* every controller that paired and was not removed still verifies against the key it learned when it paired
             /\ Report("IdentityStable", e.kept)
             /\ Report("SfRule", (e.sf = 1) <=> (paired2 = {}))
             /\ Report("PairingsPersist", SetOf(e.pairings) = paired2 \ {"ctrl-self"})
             /\ (e.a = "start" =>
                   Report("CnumRule", IF prevS = None THEN e.cnum >= 1
                                      ELSE IF prevS # e.x THEN e.cnum > prevC ELSE e.cnum = prevC))
             /\ (e.a # "start" => Report("CnumRule", e.cnum = prevC)))
       /\ first' = IF e.running /\ first[1] = None THEN <<e.id, e.ltpk>> ELSE first
       /\ prevS' = IF e.a = "start" THEN e.x ELSE prevS
       /\ prevC' = IF e.running THEN e.cnum ELSE prevC
       /\ paired' = paired2
  /\ l' = l + 1
Accepted == TLCGet("stats").diameter = Len(Trace) + 1
=======================================================================
