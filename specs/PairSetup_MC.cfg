SPECIFICATION Spec
CONSTANTS
  Conn = {"c1", "c2"}
  Ident = {"a", "b"}
  MaxAtt = 2
  Weak = {}
  AVals = {"good", "zero", "N", "missing", "replay", "replay_same"}
  Proofs = {"right", "wrong", "missing", "nilkey"}
  Seals = {"this", "other", "zero", "random", "nilkey", "recorded"}
  Bodies = {"genuine", "badsig", "mismatch", "badtlv", "smallorder"}
  Shapes = {"ok", "tagflip", "ctflip", "short", "empty"}
INVARIANTS TypeOK KeyNeedsProof
PROPERTIES StoreRule
VIEW View
CHECK_DEADLOCK FALSE
