---------------------------- MODULE FramingTrace ----------------------------
(* Monitor for C06: {"ev":"enc","case","n":payload length,"chunk","ctr0":counter before,"frames":[plaintext length per frame
   as parsed from hc's output by the reference reader],"ctrs":[counter under which each frame opens],"sameAsRef":hc's bytes
   equal the reference framing,"roundtrip":hc's Decrypt of hc's bytes gives the payload,"decOfRef":hc's Decrypt of the
   reference's bytes gives the payload} *)
EXTENDS Naturals, Sequences, FiniteSets, TLC, Json, IOUtils
VARIABLES l
F == 1024
Trace == ndJsonDeserialize(IOEnv.TRACE)
Report(rule, ok) == IF ok THEN TRUE ELSE PrintT(<<"VIOL", rule, l>>)
RECURSIVE FramesOf(_)
FramesOf(n) == IF n = 0 THEN <<>> ELSE IF n <= F THEN <<n>> ELSE <<F>> \o FramesOf(n - F)
Init == l = 1
Next == /\ l <= Len(Trace)
        /\ LET e == Trace[l] IN
           /\ Report("WireFormat", e.frames = FramesOf(e.n))
           /\ Report("WireFormat", \A i \in 1..Len(e.ctrs) : e.ctrs[i] = e.ctr0 + i - 1)
           /\ Report("WireFormat", e.sameAsRef)
           /\ Report("RoundTrip", e.roundtrip /\ e.decOfRef)
        /\ l' = l + 1
Accepted == TLCGet("stats").diameter = Len(Trace) + 1
=======================================================================
