---------------------------- MODULE FramingTrace ----------------------------
(* Monitor for C06: {"ev":"enc","case","n":payload length,"chunk","ctr0":counter before,"frames":[plaintext length per frame
   as parsed from hc's output by the reference reader],"ctrs":[counter under which each frame opens],"sameAsRef":hc's bytes
   equal the reference framing,"roundtrip":hc's Decrypt of hc's bytes gives the payload,"decOfRef":hc's Decrypt of the
   reference's bytes gives the payload} *)
EXTENDS Naturals, Sequences, FiniteSets, TLC, Json, IOUtils
VARIABLES l
F == 1024
Trace == ndJsonDeserialize(IOEnv.TRACE)
Report(rule, ok) == IF ok THEN TRUE ELSE PrintT(<<"VIOL", rule, l>>)
RECURSIVE FramesOf(_)
FramesOf(n) == IF n = 0 THEN <<>> ELSE IF n <= F THEN <<n>> ELSE <<F>> \o FramesOf(n - F)
Init == l = 1
\* "conn" lines: the message written into a real hap.Connection, directly or through a buffered writer as net/http does
\* (which relies on the io.Writer contract: the count returned is how much of the argument was written); same = a reference
\* peer opened exactly the message
Conn(e) == /\ Report("RoundTrip", e.same /\ ~e.panic /\ e.count = e.n)
Next == /\ l <= Len(Trace)
        /\ LET e == Trace[l] IN
           IF e.ev = "conn" THEN Conn(e) ELSE
           /\ Report("WireFormat", e.frames = FramesOf(e.n))
           /\ Report("WireFormat", \A i \in 1..Len(e.ctrs) : e.ctrs[i] = e.ctr0 + i - 1)
           /\ Report("WireFormat", e.sameAsRef)
           /\ Report("RoundTrip", e.roundtrip /\ e.decOfRef)
        /\ l' = l + 1
Accepted == TLCGet("stats").diameter = Len(Trace) + 1
=======================================================================
