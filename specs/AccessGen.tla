---------------------------- MODULE AccessGen ----------------------------
(* Behaviour generation for Access: history variable, step-level verdict `bad` for attack words,
   symmetry breaking between the key-less peer's connections. *)
EXTENDS Access, Json

VARIABLES hist, bad
gvars == <<vars, hist, bad>>

StepBad ==
  \/ ~VerifiedRule'
  \/ ~NoCarryOver'
  \/ (last'.a = "VFinish" /\ last'.r = "V4ok" /\ ~verified'[last'.c])
  \/ (last'.a = "VFinish" /\ last'.r = "V4ok" /\ last'.c \notin sok)
  \/ (last'.a = "Req" /\ last'.r \in {"Served", "RefusedButRun"} /\ ~verified[last'.c])
  \/ (last'.c \in Conn /\ ~verified[last'.c] /\ last'.a # "Close"
        /\ (val' # val \/ cb' # cb \/ extra' # extra \/ legitPaired' # legitPaired \/ ~(subs' \subseteq subs)))
  \/ (\E c \in last'.ev : ~verified[c])
  \/ last'.r = "V4ok+Served"

Used(c) == \E i \in 1..Len(hist) : hist[i].c = c

GInit == Init /\ hist = <<>> /\ bad = FALSE
GNext == /\ Next
         /\ (last'.c = "e2" => Used("e1"))                 \* e1 and e2 are interchangeable
         /\ hist' = Append(hist, [c |-> last'.c, a |-> last'.a, p |-> last'.p, f |-> last'.f, exp |-> last'.r])
         /\ bad' = (bad \/ StepBad)

MaxLen == 3
WordBound == Len(hist) <= MaxLen
EmitWord == Len(hist) = MaxLen => PrintT(<<"BEH", ToJson(hist)>>)
EmitEdge == Len(hist) > 0 => PrintT(<<"BEH", ToJson(hist)>>)
EdgeView == <<View, last>>
SimLen == 10
\* one print per simulated trace: only when the step after the word is the marker action (run with -depth SimLen+1)
EmitSim == (Len(hist) = SimLen + 1 /\ hist[SimLen + 1].a = "LocalSet")
             => PrintT(<<"BEH", ToJson(SubSeq(hist, 1, SimLen))>>)
NoAttack == IF bad THEN ~PrintT(<<"BEH", ToJson(hist)>>) ELSE TRUE
AttackView == <<View, bad>>
=======================================================================
