---------------------------- MODULE StorageCrash ----------------------------
(* Design specification of a storage write as a sequence of file-system operations with a crash allowed before each.
   C19  A crash during a storage write never corrupts the stored value

   Code anchors: util/file_storage.go (Set and its helpers), db/database.go:68-76 (SaveEntity), config.go:126-131 (save).
   Two write protocols are modelled: "inplace" (open without truncation, write) - the code before the repair - and
   "rename" (write a temporary file in the same directory, sync, rename over the key).  The protocol in force is the
   constant Protocol; Weak = {} means rename. *)
EXTENDS Naturals, Sequences, FiniteSets, TLC
CONSTANTS Lens,       \* value lengths to choose old / new from; 0 stands for "absent" as an old value when OldAbsent
          Protocol,   \* "rename" | "inplace"
          Weak        \* named guards that are MISSING: "tmp_truncated" (a left-over temporary file is emptied before reuse)
VARIABLES old, new,   \* scenario: [absent: BOOLEAN, len: Nat] / length of the value being written
          pc,         \* index of the next file-system operation
          file,       \* the key's file: [exists, nnew, nold]  = bytes of the value being written at the front, foreign bytes after them
          tmp,        \* the temporary file: bytes of the value being written so far, -1 = does not exist
          stale,      \* foreign bytes in the temporary file behind them (left by an earlier, killed write)
          crashed,
          phase       \* "first": the write that may be killed; "next": a complete write of another value after the restart; "done"
vars == <<old, new, pc, file, tmp, stale, crashed, phase>>
Guard(g) == g \notin Weak

Ops == IF Protocol = "rename" THEN <<"create_tmp", "write_tmp", "sync_tmp", "close_tmp", "rename">>
       ELSE <<"open_key", "write_key", "close_key">>

Init == /\ old \in [absent : BOOLEAN, len : Lens] /\ new \in Lens
        /\ pc = 1 /\ crashed = FALSE /\ tmp = 0 - 1 /\ stale = 0 /\ phase = "first" /\ file = [exists |-> ~old.absent, nnew |-> 0, nold |-> IF old.absent THEN 0 ELSE old.len]

Max(a, b) == IF a > b THEN a ELSE b
Apply(op) ==
  CASE op = "create_tmp" -> /\ tmp' = 0 /\ UNCHANGED file      \* O_CREATE|O_TRUNC: what an earlier write left there is gone
                            /\ stale' = IF tmp > 0 /\ ~Guard("tmp_truncated") THEN tmp + stale ELSE 0
    [] op = "write_tmp"  -> tmp' = new /\ stale' = (IF stale > new THEN stale - new ELSE 0) /\ UNCHANGED file
    [] op = "rename"     -> file' = [exists |-> TRUE, nnew |-> tmp, nold |-> stale] /\ tmp' = 0 - 1 /\ stale' = 0
    [] op = "open_key"   -> file' = [file EXCEPT !.exists = TRUE] /\ UNCHANGED <<tmp, stale>>          \* O_CREATE, no O_TRUNC
    [] op = "write_key"  -> file' = [exists |-> TRUE, nnew |-> new, nold |-> IF file.nnew + file.nold > new THEN file.nnew + file.nold - new ELSE 0] /\ UNCHANGED <<tmp, stale>>
    [] OTHER             -> UNCHANGED <<file, tmp, stale>>       \* sync / close: nothing a process kill could undo
Step  == /\ phase \in {"first", "next"} /\ ~(phase = "first" /\ crashed) /\ pc <= Len(Ops) /\ Apply(Ops[pc]) /\ pc' = pc + 1
         /\ UNCHANGED <<old, new, crashed, phase>>
Crash == /\ phase = "first" /\ ~crashed /\ crashed' = TRUE /\ UNCHANGED <<old, new, pc, file, tmp, stale, phase>>
\* after the restart another value is written to the same key, this time to the end
Restart(n) == /\ phase = "first" /\ (crashed \/ pc > Len(Ops)) /\ phase' = "next" /\ new' = n /\ pc' = 1
              /\ UNCHANGED <<old, file, tmp, stale, crashed>>
Finish == /\ phase = "next" /\ pc > Len(Ops) /\ phase' = "done" /\ UNCHANGED <<old, new, pc, file, tmp, stale, crashed>>
Next == Step \/ Crash \/ (\E n \in Lens : Restart(n)) \/ Finish
Spec == Init /\ [][Next]_vars

\* what a fresh store reads for the key
ReadsOld == IF old.absent THEN ~file.exists ELSE file.exists /\ file.nnew = 0 /\ file.nold = old.len
ReadsNew == file.exists /\ file.nnew = new /\ file.nold = 0
\* ---- C19
AtomicRule == (phase = "first" /\ crashed) => (ReadsOld \/ ReadsNew)
Completed == (phase = "first" /\ ~crashed /\ pc > Len(Ops)) => ReadsNew
\* ---- and the store stays a map afterwards (C18 after a crash): the next complete write is read back exactly
FollowUp == phase = "done" => ReadsNew
=======================================================================
