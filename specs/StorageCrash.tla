---------------------------- MODULE StorageCrash ----------------------------
(* Design specification of a storage write as a sequence of file-system operations with a crash allowed before each.
   C19  A crash during a storage write never corrupts the stored value

   Code anchors: util/file_storage.go (Set and its helpers), db/database.go:68-76 (SaveEntity), config.go:126-131 (save).
   Two write protocols are modelled: "inplace" (open without truncation, write) - the code before the repair - and
   "rename" (write a temporary file in the same directory, sync, rename over the key).  The protocol in force is the
   constant Protocol; Weak = {} means rename. *)
EXTENDS Naturals, Sequences, FiniteSets, TLC
CONSTANTS Lens,       \* value lengths to choose old / new from; 0 stands for "absent" as an old value when OldAbsent
          Protocol    \* "rename" | "inplace"
VARIABLES old, new,   \* scenario: [absent: BOOLEAN, len: Nat] / length of the new value
          pc,         \* index of the next file-system operation
          file,       \* the key's file: [exists, nnew, nold]  = bytes of the new value at the front, old bytes after them
          tmp,        \* the temporary file: bytes of the new value written so far, -1 = does not exist
          crashed
vars == <<old, new, pc, file, tmp, crashed>>

Ops == IF Protocol = "rename" THEN <<"create_tmp", "write_tmp", "sync_tmp", "close_tmp", "rename">>
       ELSE <<"open_key", "write_key", "close_key">>

Init == /\ old \in [absent : BOOLEAN, len : Lens] /\ new \in Lens
        /\ pc = 1 /\ crashed = FALSE /\ tmp = 0 - 0 /\ file = [exists |-> ~old.absent, nnew |-> 0, nold |-> IF old.absent THEN 0 ELSE old.len]

Max(a, b) == IF a > b THEN a ELSE b
Apply(op) ==
  CASE op = "create_tmp" -> tmp' = 0 /\ UNCHANGED file
    [] op = "write_tmp"  -> tmp' = new /\ UNCHANGED file
    [] op = "rename"     -> file' = [exists |-> TRUE, nnew |-> new, nold |-> 0] /\ tmp' = 0
    [] op = "open_key"   -> file' = [file EXCEPT !.exists = TRUE] /\ UNCHANGED tmp          \* O_CREATE, no O_TRUNC
    [] op = "write_key"  -> file' = [exists |-> TRUE, nnew |-> new, nold |-> IF file.nold > new THEN file.nold - new ELSE 0] /\ UNCHANGED tmp
    [] OTHER             -> UNCHANGED <<file, tmp>>       \* sync / close: nothing a process kill could undo
Step  == /\ ~crashed /\ pc <= Len(Ops) /\ Apply(Ops[pc]) /\ pc' = pc + 1 /\ UNCHANGED <<old, new, crashed>>
Crash == /\ ~crashed /\ crashed' = TRUE /\ UNCHANGED <<old, new, pc, file, tmp>>
Next == Step \/ Crash
Spec == Init /\ [][Next]_vars

\* what a fresh store reads for the key
ReadsOld == IF old.absent THEN ~file.exists ELSE file.exists /\ file.nnew = 0 /\ file.nold = old.len
ReadsNew == file.exists /\ file.nnew = new /\ file.nold = 0
\* ---- C19
AtomicRule == crashed => (ReadsOld \/ ReadsNew)
Completed == (~crashed /\ pc > Len(Ops)) => ReadsNew
=======================================================================
