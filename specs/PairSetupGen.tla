---------------------------- MODULE PairSetupGen ----------------------------
EXTENDS PairSetup, Json
VARIABLES hist, bad
GInit == Init /\ hist = <<>> /\ bad = FALSE
StepBad == ~StoreRuleP(store, store', last'.m, IF last'.c \in Conn THEN proved[last'.c] ELSE FALSE)
Used(c) == \E i \in 1..Len(hist) : hist[i].c = c
GNext == /\ Next
         /\ (last'.c = "c2" => Used("c1"))
         /\ hist' = Append(hist, [c |-> last'.c, m |-> last'.m, exp |-> last'.r])
         /\ bad' = (bad \/ StepBad)
MaxLen == 3
WordBound == Len(hist) <= MaxLen
EmitWord == Len(hist) = MaxLen => PrintT(<<"BEH", ToJson(hist)>>)
EmitEdge == Len(hist) > 0 => PrintT(<<"BEH", ToJson(hist)>>)
EdgeView == <<View, last>>
SimLen == 8
\* TLC's simulator evaluates invariants on EVERY successor of the current state; printing only when the step after
\* the word is a fixed marker action yields exactly one print per simulated trace (run with -depth SimLen+1).
EmitSim == (Len(hist) = SimLen + 1 /\ hist[SimLen + 1].c = "c1" /\ hist[SimLen + 1].m.t = "Start")
             => PrintT(<<"BEH", ToJson(SubSeq(hist, 1, SimLen))>>)
NoAttack == IF bad THEN ~PrintT(<<"BEH", ToJson(hist)>>) ELSE TRUE
AttackView == <<View, bad>>
=======================================================================
