---------------------------- MODULE TLV8 ----------------------------
(* Design specification of the TLV8 container codec.
   C16  TLV8 containers round-trip and fragment correctly
   Code anchors: util/tlv8.go:81-101 (SetBytes: fragmenting writer), :25-50 (parser), :52-75 (per-tag concatenating read),
   :107-118 (serialisation).  The algorithms are parametric in the fragment size; the model is checked with a small
   MaxFrag and byte values that identify their origin, the trace specification judges real runs with MaxFrag = 255. *)
EXTENDS Naturals, Sequences, FiniteSets, TLC
CONSTANTS MaxFrag, Tags, MaxLen, MaxSets, Weak
VARIABLES items,    \* the container: sequence of [tag, val]
          sets,     \* history: sequence of [tag, val] as set by the caller
          nextByte  \* fresh byte ids
vars == <<items, sets, nextByte>>
Guard(g) == g \notin Weak

\* ---- writer: util/tlv8.go:81-101
RECURSIVE Frag(_)
\* an empty value is an item of length 0 (guard empty_value_is_an_item): a tag that was set is on the wire - that is how
\* HAP separates list entries (separator item of length 0); without the guard setting an empty value adds nothing
Frag(v) == IF Len(v) = 0 THEN (IF Guard("empty_value_is_an_item") THEN << <<>> >> ELSE <<>>)
           ELSE IF Len(v) <= MaxFrag THEN (IF Len(v) = MaxFrag /\ ~Guard("no_empty_terminator") THEN <<v, <<>> >> ELSE <<v>>)
           ELSE <<SubSeq(v, 1, IF Guard("fragment_size") THEN MaxFrag ELSE MaxFrag + 1)>>
                \o Frag(SubSeq(v, (IF Guard("fragment_size") THEN MaxFrag ELSE MaxFrag + 1) + 1, Len(v)))
Init == items = <<>> /\ sets = <<>> /\ nextByte = 1
Set(tag, n) ==
  /\ Len(sets) < MaxSets
  /\ LET v == [i \in 1..n |-> nextByte + i - 1] IN
     /\ items' = items \o [k \in 1..Len(Frag(v)) |-> [tag |-> tag, val |-> Frag(v)[k]]]
     /\ sets' = Append(sets, [tag |-> tag, val |-> v])
  /\ nextByte' = nextByte + n
Next == \E t \in Tags, n \in 0..MaxLen : Set(t, n)
Spec == Init /\ [][Next]_vars

\* ---- serialisation and parser (total on byte strings)
RECURSIVE Ser(_)
Ser(its) == IF its = <<>> THEN <<>> ELSE <<Head(its).tag, Len(Head(its).val)>> \o Head(its).val \o Ser(Tail(its))
RECURSIVE ParseFrom(_, _, _)
ParseFrom(b, i, acc) ==
  IF i > Len(b) THEN [ok |-> TRUE, items |-> acc]
  ELSE IF i + 1 > Len(b) THEN [ok |-> FALSE, items |-> <<>>]
  ELSE LET n == b[i + 1] IN
       IF i + 1 + n > Len(b) THEN [ok |-> FALSE, items |-> <<>>]
       ELSE ParseFrom(b, i + 2 + n, Append(acc, [tag |-> b[i], val |-> SubSeq(b, i + 2, i + 1 + n)]))
Parse(b) == ParseFrom(b, 1, <<>>)
RECURSIVE Get(_, _)
Get(its, tag) == IF its = <<>> THEN <<>> ELSE (IF Head(its).tag = tag THEN Head(its).val ELSE <<>>) \o Get(Tail(its), tag)

\* ---- C16
FragmentSize == \A k \in 1..Len(items) : Len(items[k].val) <= MaxFrag
EverySetIsAnItem == \A k \in 1..Len(sets) : \E j \in 1..Len(items) : items[j].tag = sets[k].tag
RoundTrip == LET p == Parse(Ser(items)) IN p.ok /\ \A t \in Tags : Get(p.items, t) = Get(sets, t)
\* a cut stream parses only at an item boundary, and then yields a prefix of the items
RECURSIVE Boundaries(_)
Boundaries(its) == IF its = <<>> THEN {0} ELSE {0} \cup {2 + Len(Head(its).val) + x : x \in Boundaries(Tail(its))}
CutRule == LET b == Ser(items) IN
             \A c \in 0..Len(b) : Parse(SubSeq(b, 1, c)).ok <=> c \in Boundaries(items)
=======================================================================
