SPECIFICATION Spec
CONSTANTS
  Writer = {"w1", "w2", "w3"}
  NFrames <- NF3
  Weak = {}
  PieceLen = 1
INVARIANTS InOrder Contiguous
VIEW View
CHECK_DEADLOCK FALSE
