SPECIFICATION Spec
CONSTANTS
  MaxReq = 3
  MaxVerify = 3
  Weak = {}
INVARIANTS HandOver StoredOnlyAfterM6 WrongCodeStoresNothing
CHECK_DEADLOCK FALSE
