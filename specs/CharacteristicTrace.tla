---------------------------- MODULE CharacteristicTrace ----------------------------
(* Monitor for C12 and C11 (update API): one line per step of an update word applied to a real characteristic object.
   dyn = dynamic type class of the stored value; fmt = the class its declared format requires. *)
EXTENDS Naturals, Sequences, FiniteSets, TLC, Json, IOUtils
VARIABLES l
Trace == ndJsonDeserialize(IOEnv.TRACE)
SetOf(s) == {s[i] : i \in 1..Len(s)}
Report(rule, ok) == IF ok THEN TRUE ELSE PrintT(<<"VIOL", rule, l>>)
Init == l = 1
Next ==
  /\ l <= Len(Trace)
  /\ LET e == Trace[l]
         perms == SetOf(e.perms) IN
     \* C12
     \* (a format the library has no constant for declares no type)
     /\ Report("TypeOK", e.fmtknown => e.dyn \in {e.fmt, "nil"})
     /\ Report("TypeOK", (e.fmtknown /\ e.dyn = "nil") => ("pr" \notin perms \/ (e.dyn0 = "nil" /\ ~e.everchanged)))
     /\ Report("RangeOK", e.inrange)
     /\ Report("NoUpdatePanic", ~e.panic)
     /\ Report("NoGetterPanic", ("pr" \in perms /\ e.dyn # "nil") => ~e.getpanic)
     /\ Report("Encodes", e.jsonok)
     \* C11
     /\ Report("NoWriteWithoutPw", (e.a = "Update" /\ e.remote /\ "pw" \notin perms) => (~e.changed /\ e.cbr = 0 /\ e.cbl = 0))
     /\ Report("NoValueWithoutPr", "pr" \notin perms => (e.valnil /\ ~e.jsonhasvalue))
  /\ l' = l + 1
Accepted == TLCGet("stats").diameter = Len(Trace) + 1
=======================================================================
