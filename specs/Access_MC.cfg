SPECIFICATION Spec
CONSTANTS
  EvilConn = {"e1", "e2"}
  LegitConn = {"l1"}
  FinishKinds = {"genuine", "wrongkey", "stale", "reordered", "replayed", "unknown", "genuine_inject", "self", "selfkey", "replayown", "reflect", "crossname", "badseal", "short", "badtlv"}
  StartLens = {"ok", "sameA", "short", "long", "empty"}
  Ops = {"GetAcc", "GetChar", "PutVal", "PutSub", "Resource", "AddPair", "RemPair"}
  Noise = {"psstart", "pswrong", "pszero"}
  MaxExch = 2
  Weak = {}
INVARIANTS TypeOK VerifiedRule NoCarryOver
PROPERTIES NoPlainInSession ErrorRule FinishAnswersStart GateRule RefusalChangesNothing OnlyVerifiedGetEvents
VIEW View
CHECK_DEADLOCK FALSE
