SPECIFICATION Spec
CONSTANTS
  RawKey = {"k1", "k2"}
  Name = {"n1", "n2"}
  Val = {"long", "mid", "short", "empty"}
  VLen <- VLenDef
  Weak = {}
INVARIANT MapRule
VIEW View
CHECK_DEADLOCK FALSE
