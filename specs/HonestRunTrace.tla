---------------------------- MODULE HonestRunTrace ----------------------------
(* Monitor for C04: the reference controller's symbolic parse of every accessory message of an honest run.
   Tag numbers: 1 Identifier, 2 Salt, 3 PublicKey, 4 Proof, 5 EncryptedData, 6 State, 7 Error, 10 Signature.
   Each line: name, http, framed ("plain"/"enc"), tags (raw item types in order of appearance, fragments merged), and what
   verified: proofok, opens (the nonce string under which the box opened, under the key the specification prescribes),
   inner (item types inside the box), sig (the material order under which the signature verified), lens, stored. *)
EXTENDS Naturals, Sequences, FiniteSets, TLC, Json, IOUtils
VARIABLES l
Trace == ndJsonDeserialize(IOEnv.TRACE)
SetOf(s) == {s[i] : i \in 1..Len(s)}
Report(rule, ok) == IF ok THEN TRUE ELSE PrintT(<<"VIOL", rule, l>>)
Once(s) == Len(s) = Cardinality(SetOf(s))
Init == l = 1
Next ==
  /\ l <= Len(Trace)
  /\ LET e == Trace[l] IN
     CASE e.name = "M2" -> /\ Report("Structure", e.http = 200 /\ e.framed = "plain" /\ SetOf(e.tags) = {6, 3, 2} /\ e.state = 2)
                           /\ Report("ItemsOnce", Once(e.tags))
                           /\ Report("Structure", e.publen = 384 /\ e.saltlen = 16)
       [] e.name = "M4" -> /\ Report("Structure", e.http = 200 /\ e.framed = "plain" /\ SetOf(e.tags) = {6, 4} /\ e.state = 4)
                           /\ Report("ItemsOnce", Once(e.tags))
                           /\ Report("Crypto", e.proofok)
       [] e.name = "M4err" -> /\ Report("WrongCode", e.http = 200 /\ e.framed = "plain" /\ e.state = 4 /\ e.err = 2 /\ ~e.hasproof)
                              /\ Report("WrongCode", ~e.stored)
       [] e.name = "M6" -> /\ Report("Structure", e.http = 200 /\ e.framed = "plain" /\ SetOf(e.tags) = {6, 5} /\ e.state = 6)
                           /\ Report("ItemsOnce", Once(e.tags))
                           /\ Report("Crypto", e.opens = "PS-Msg06" /\ SetOf(e.inner) = {1, 3, 10} /\ Once(e.inner))
                           /\ Report("Crypto", e.sig = "x|id|ltpk" /\ e.idok)
                           /\ Report("Stored", e.stored)
       \* the first pair-verify of a connection travels in plaintext, a later one in the session it replaces
       [] e.name = "V2" -> /\ Report("Structure", e.http = 200 /\ SetOf(e.tags) = {6, 3, 5} /\ e.state = 2 /\ e.publen = 32)
                           /\ Report(IF e.nth = 1 THEN "Structure" ELSE "SwitchAtomic", e.framed = (IF e.nth = 1 THEN "plain" ELSE "enc"))
                           /\ Report("ItemsOnce", Once(e.tags))
                           /\ Report("Crypto", e.opens = "PV-Msg02" /\ SetOf(e.inner) = {1, 10} /\ Once(e.inner))
                           /\ Report("Crypto", e.sig = "accEph|id|ctrlEph" /\ e.idok)
       [] e.name = "V4" -> /\ Report("Structure", e.http = 200 /\ SetOf(e.tags) = {6} /\ e.state = 4)
                           /\ Report("ItemsOnce", Once(e.tags))
                           /\ Report(IF e.nth = 1 THEN "V4Plain" ELSE "SwitchAtomic", e.framed = (IF e.nth = 1 THEN "plain" ELSE "enc"))
       [] e.name = "resp" -> /\ Report("Talk", e.http = e.want /\ e.framed = "enc" /\ e.bodyok)
       \* what the accessory sends of its own accord is framed the way the controller opens it at that point
       \* a protected request before pair-verify is refused in plaintext (and the connection can still verify: the V2 / V4 / resp
       \* lines that follow are judged as always)
       [] e.name = "probe" -> Report("Talk", e.http >= 400 /\ e.http < 500 /\ e.framed = "plain")
       [] e.name = "event" -> Report("SwitchAtomic", e.framed = e.expected)
       [] e.name = "fail" -> Report(e.rule, FALSE)       \* the run could not proceed: e.rule says where
       [] OTHER -> TRUE
  /\ l' = l + 1
Accepted == TLCGet("stats").diameter = Len(Trace) + 1
=======================================================================
