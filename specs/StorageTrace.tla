---------------------------- MODULE StorageTrace ----------------------------
(* Monitor for C18: the reference map.  Lines: {"ev":"op","op","k","v","ret"} where ret is, for Get / EntityWithName,
   the token of the value the returned bytes equal ("notfound", "other" when they equal none), and for listings the list
   of live keys; ghost state m is the map a correct store implements. *)
EXTENDS Naturals, Sequences, FiniteSets, TLC, Json, IOUtils
CONSTANTS RawKey
VARIABLES l, m
Trace == ndJsonDeserialize(IOEnv.TRACE)
SetOf(s) == {s[i] : i \in 1..Len(s)}
Report(rule, ok) == IF ok THEN TRUE ELSE PrintT(<<"VIOL", rule, l>>)
Init == l = 1 /\ m = << >>
Has(k) == k \in DOMAIN m
Put(k, v) == [x \in DOMAIN m \cup {k} |-> IF x = k THEN v ELSE m[x]]
Del(k) == [x \in DOMAIN m \ {k} |-> m[x]]
Next ==
  /\ l <= Len(Trace)
  /\ LET e == Trace[l] IN
     CASE e.ev = "reset" -> m' = << >>
       \* several writers of one key at the same time: no Set fails, the key holds one of the values in full
       [] e.ev = "conc" -> /\ Report("MapRule", e.errs = 0 /\ e.final = "one") /\ m' = m
       [] e.op \in {"Set", "SaveEntity"} -> /\ Report("MapRule", e.ret = "ok") /\ m' = Put(e.k, e.v)
       [] e.op \in {"Get", "EntityWithName"} ->
            /\ Report("MapRule", e.ret = (IF Has(e.k) THEN m[e.k] ELSE "notfound")) /\ m' = m
       [] e.op \in {"Delete", "DeleteEntity"} -> m' = Del(e.k)
       [] e.op = "Keys" -> /\ Report("ListRule", SetOf(e.list) = {k \in DOMAIN m : k \in RawKey})
                           \* listing by suffix is the same listing, filtered: every key under each of its suffixes, nothing else
                           /\ Report("ListRule", e.sufok) /\ m' = m
       [] e.op = "Entities" -> /\ Report("ListRule", SetOf(e.list) = {k \in DOMAIN m : k \notin RawKey}) /\ m' = m
       [] OTHER -> m' = m
  /\ l' = l + 1
Accepted == TLCGet("stats").diameter = Len(Trace) + 1
=======================================================================
