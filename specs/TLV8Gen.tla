---------------------------- MODULE TLV8Gen ----------------------------
EXTENDS TLV8, Json
\* set-words: the sequence of (tag, length class) of a container; the harness maps small lengths to the real boundaries
EmitWord == Len(sets) = MaxSets => PrintT(<<"BEH", ToJson([k \in 1..Len(sets) |-> [tag |-> sets[k].tag, n |-> Len(sets[k].val)]])>>)
NoAttack == IF ~(FragmentSize /\ RoundTrip /\ CutRule /\ EverySetIsAnItem) THEN ~PrintT(<<"BEH", ToJson([k \in 1..Len(sets) |-> [tag |-> sets[k].tag, n |-> Len(sets[k].val)]])>>) ELSE TRUE
=======================================================================
