---------------------------- MODULE PlainRead ----------------------------
(* Design specification of how a connection that is NOT encrypted (yet) hands the bytes it receives to the HTTP server.
   C05 / C01 (what an on-path adversary appends to a request is not read ahead), C04 (what an impatient controller sends
   right behind the pair-verify finish is read with the keys of the session).

   Code anchors: hap/connection.go Read (plaintext branch), plainState.scan / waitForResponse / setDeadline,
   SetHandlingRequest (http.ConnState: StateActive after the head of a request was read, StateIdle after its response),
   hap/endpoint/pair-verify.go (SetDecrypter before the finish response is flushed).

   The wire is a sequence of requests; request i consists of a head in two pieces ("a", "b": the piece that holds the empty
   line) and Bodies[i] body tokens.  The peer (or an adversary) delivers tokens in pieces of any size; the server reads with
   buffers of any size.  Intended design (guard one_request_at_a_time): a read returns tokens of ONE request; when that
   request has been handed out completely the next read waits until its response was written (the handler is done), or
   until the server aborts it (net/http sets a deadline in the past when the handler returns).  The response to request
   Switch installs the session: what is read afterwards is read through the session (it is no plaintext any more).
   A guard in Weak is MISSING. *)
EXTENDS Naturals, Sequences, FiniteSets, TLC
CONSTANTS Bodies,    \* sequence of body lengths, one per request
          Switch,    \* the request whose response installs the session (0 = none)
          Weak
VARIABLES arrived,   \* tokens that have reached the socket (a prefix of the wire)
          consumed,  \* tokens handed to the HTTP server as plaintext (a prefix of the arrived ones)
          complete,  \* the request being read has been handed out completely
          handling,  \* a request is being handled (StateActive .. StateIdle)
          handled,   \* number of requests whose response has been written
          enc,       \* the session is installed: reads go through it
          reading,   \* a Read call is in progress
          last
vars == <<arrived, consumed, complete, handling, handled, enc, reading, last>>
Guard(g) == g \notin Weak

N == Len(Bodies)
RECURSIVE End(_)
End(i) == IF i = 0 THEN 0 ELSE End(i - 1) + 2 + Bodies[i]          \* index of the last token of request i
Total == End(N)
\* the request a token index belongs to
Req(t) == CHOOSE i \in 1..N : End(i - 1) < t /\ t <= End(i)
Init == /\ arrived = 0 /\ consumed = 0 /\ complete = FALSE /\ handling = FALSE /\ handled = 0 /\ enc = FALSE /\ reading = FALSE
        /\ last = [a |-> "none", n |-> 0]

Arrive(k) == /\ arrived < Total /\ k \in 1..(Total - arrived)
             /\ arrived' = arrived + k /\ last' = [a |-> "Arrive", n |-> k]
             /\ UNCHANGED <<consumed, complete, handling, handled, enc, reading>>
ReadCall == /\ ~reading /\ reading' = TRUE /\ last' = [a |-> "ReadCall", n |-> 0]
            /\ UNCHANGED <<arrived, consumed, complete, handling, handled, enc>>
\* a read may not go on while the request it would continue into is not the one being handled
\* (whether the server has begun to handle that request or not: the read does not rely on the order in which the server
\*  reads and announces that it handles a request)
Held == complete /\ handled < Req(consumed) /\ Guard("one_request_at_a_time")
\* how far a read may go: to the end of the request it reads (of the next one, when the current one is complete)
Limit == IF ~Guard("one_request_at_a_time") THEN arrived
         ELSE IF consumed >= Total THEN consumed
         ELSE LET e == End(Req(consumed + 1)) IN IF e < arrived THEN e ELSE arrived
ReadReturn(m) ==
  /\ reading /\ ~enc /\ ~Held /\ consumed < arrived
  /\ m \in 1..(Limit - consumed)
  /\ consumed' = consumed + m
  /\ complete' = (Guard("one_request_at_a_time") /\ consumed + m = End(Req(consumed + m)))
  /\ reading' = FALSE /\ last' = [a |-> "ReadReturn", n |-> m]
  /\ UNCHANGED <<arrived, handling, handled, enc>>
\* with the session installed the read goes through it (its outcome is SecureChannel.tla's and ConnRead.tla's business)
ReadThroughSession == /\ reading /\ enc /\ ~Held /\ consumed < arrived
                      /\ reading' = FALSE /\ last' = [a |-> "ReadSession", n |-> 0]
                      /\ UNCHANGED <<arrived, consumed, complete, handling, handled, enc>>
\* the server has parsed the head of the next request: the request is being handled
HandlerStart == /\ ~handling /\ handled < N /\ consumed >= End(handled) + 2
                /\ handling' = TRUE /\ last' = [a |-> "HandlerStart", n |-> handled + 1]
                /\ UNCHANGED <<arrived, consumed, complete, handled, enc, reading>>
\* the handler has read the body and written the response; a read that is still in progress is aborted first
HandlerDone == /\ handling /\ consumed >= End(handled + 1) /\ ~reading
               /\ handling' = FALSE /\ handled' = handled + 1
               /\ enc' = (enc \/ handled + 1 = Switch)
               /\ last' = [a |-> "HandlerDone", n |-> handled + 1]
               /\ UNCHANGED <<arrived, consumed, complete, reading>>
Abort == /\ reading /\ reading' = FALSE /\ last' = [a |-> "Abort", n |-> 0]
         /\ UNCHANGED <<arrived, consumed, complete, handling, handled, enc>>
Done == /\ handled = N /\ arrived = Total /\ UNCHANGED vars
Next == (\E k \in 1..Total : Arrive(k)) \/ ReadCall \/ (\E m \in 1..Total : ReadReturn(m)) \/ ReadThroughSession
        \/ HandlerStart \/ HandlerDone \/ Abort \/ Done
Spec == Init /\ [][Next]_vars

\* ---- nothing of a later request is handed out in plaintext before the response of the earlier one was written ...
NoReadAhead == consumed <= End(IF handled + 1 > N THEN N ELSE handled + 1)
\* ... in particular nothing that follows the request which installs the session is ever handed out in plaintext
NoPlainAfterSwitch == Switch # 0 => consumed <= End(Switch)
TypeOK == consumed <= arrived /\ arrived <= Total /\ handled <= N
View == <<arrived, consumed, complete, handling, handled, enc, reading>>
=======================================================================
