---------------------------- MODULE IdsMC ----------------------------
EXTENDS Ids, Json
ShapesDef == {<<>>, <<1>>, <<3>>, <<2, 0>>, <<0, 2>>, <<0, 0, 1>>, <<1, 1, 2>>}
EmitWord == Len(word) = MaxAcc => PrintT(<<"BEH", ToJson(word)>>)
NoAttack == IF ~(UniqueAids /\ NonZero /\ UniqueIids /\ AutomaticAccepted) THEN ~PrintT(<<"BEH", ToJson(word)>>) ELSE TRUE
=======================================================================
