---------------------------- MODULE NotifyTrace ----------------------------
(* Monitor for C10: replays an ndjson trace recorded from a real transport with three verified controllers
   (harness family "notify"). `want` (who asked for what and has not revoked it) and `open` are ghost state computed
   from the actions; "the value changed" is decided on the application-side values observed before / after the action. *)
EXTENDS Naturals, Sequences, FiniteSets, TLC, Json, IOUtils
CONSTANTS Evented
VARIABLES l, open, want, val
Trace == ndJsonDeserialize(IOEnv.TRACE)
SetOf(s) == {s[i] : i \in 1..Len(s)}
Report(rule, ok) == IF ok THEN TRUE ELSE PrintT(<<"VIOL", rule, l>>)
Num(n) == IF n = 0 THEN "0" ELSE IF n = 1 THEN "1" ELSE "other"

Init == l = 1 /\ open = {} /\ want = {} /\ val = [x |-> 0, y |-> 0, z |-> 0]

Reset == /\ l <= Len(Trace) /\ Trace[l].ev = "reset"
         /\ open' = {} /\ want' = {} /\ val' = Trace[l].val /\ l' = l + 1

Act ==
  /\ l <= Len(Trace) /\ Trace[l].ev = "act"
  /\ LET e == Trace[l]
         race == e.a = "RemoteRace" /\ ~e.skipped
         upd == (race \/ e.a \in {"Local", "Remote", "Getter", "LocalRace", "RemoteSub", "RemoteUnsub"}) /\ ~e.skipped
         prev == IF upd THEN val[e.ch] ELSE 0
         new == IF upd THEN e.val[e.ch] ELSE 0
         changed == upd /\ new # prev
         open2 == IF e.skipped THEN open
                  ELSE IF e.a = "Connect" THEN open \cup {e.c}
                  ELSE IF e.a \in {"Close", "LocalRace"} THEN open \ {e.c} ELSE open
         want2 == IF e.skipped THEN want
                  ELSE IF e.a \in {"Sub", "RemoteSub"} /\ e.ch \in Evented THEN want \cup {<<e.c, e.ch>>}
                  ELSE IF e.a \in {"Unsub", "RemoteUnsub"} THEN want \ {<<e.c, e.ch>>}
                  ELSE IF e.a \in {"Close", "Connect", "LocalRace"} THEN {s \in want : s[1] # e.c} ELSE want
         origin == IF e.a \in {"Remote", "Getter", "RemoteSub", "RemoteUnsub"} THEN e.c ELSE "app"
         expected == IF changed
                     THEN {c \o "|" \o e.ch \o "|" \o Num(new) : c \in {x \in open2 : x # origin /\ <<x, e.ch>> \in want}}
                     ELSE {}
         \* two writers of the same new value at the same time (RemoteRace): one write is the change, the other is none
         key(x) == x \o "|" \o e.ch \o "|" \o Num(new)
         cnt(x) == Cardinality({i \in 1..Len(e.got) : e.got[i] = key(x)})
         listening == {x \in open2 : <<x, e.ch>> \in want}
         \* a change followed by a second one before it was notified (Nested: the application's callback sets the value back;
         \* LocalPair: two goroutines of the application, the value went forth and back iff e.two).  Per connection, in the
         \* order of arrival: the value of the first change (not to its originator), then the value it went back to.
         nested == (e.a = "Nested" \/ (e.a = "LocalPair" /\ e.two)) /\ ~e.skipped
         pair1 == e.a = "LocalPair" /\ ~e.two /\ ~e.skipped           \* the no-change write came first: one change
         norigin == IF e.a = "Nested" THEN e.c ELSE "app"
         ev(v) == e.ch \o "|" \o Num(v)
         nexp(x) == IF x \in open2 /\ <<x, e.ch>> \in want
                    THEN (IF x # norigin THEN <<ev(e.v)>> ELSE <<>>) \o <<ev(val[e.ch])>> ELSE <<>>
         during == e.a = "During" /\ ~e.skipped
         dexp(x) == IF x \in open2 /\ <<x, e.ch>> \in want THEN <<ev(1 - val[e.ch]), ev(val[e.ch]), ev(1 - val[e.ch])>> ELSE <<>>
     IN
     \* three changes while a request of e.c is in flight: everybody who listens gets all three, in order (e.c after its response)
     /\ (during => /\ Report("CarriesNewValue", \A x \in DOMAIN e.seqs : e.seqs[x] = dexp(x))
                   /\ Report("CarriesNewValue", e.val[e.ch] = 1 - val[e.ch] /\ e.inflight))
     /\ (nested => /\ Report("CarriesNewValue", \A x \in DOMAIN e.seqs : e.seqs[x] = nexp(x))
                   /\ Report("CarriesNewValue", e.mid = e.v /\ e.val[e.ch] = val[e.ch]))
     /\ (pair1 => Report("CarriesNewValue", \A x \in DOMAIN e.seqs : e.seqs[x] = IF x \in open2 /\ <<x, e.ch>> \in want THEN <<ev(e.val[e.ch])>> ELSE <<>>))
     /\ ((~race /\ ~nested /\ ~pair1 /\ ~during) => /\ Report("ExactlyOnce", SetOf(e.got) = expected)
                  /\ Report("ExactlyOnce", Len(e.got) = Cardinality(SetOf(e.got))))
     /\ (race => /\ Report("ExactlyOnce", \A x \in listening \ {e.c, e.d} : cnt(x) = (IF changed THEN 1 ELSE 0))
                 /\ Report("ExactlyOnce", SetOf(e.got) \subseteq {key(x) : x \in listening})
                 /\ Report("ExactlyOnce", cnt(e.c) + cnt(e.d) <= 1)
                 /\ Report("ExactlyOnce", (changed /\ {e.c, e.d} \subseteq listening) => cnt(e.c) + cnt(e.d) = 1))
     /\ Report("NoAppPanic", ~e.panic)
     /\ Report("FenceAnswered", Len(e.fenceErr) = 0)
     /\ open' = open2 /\ want' = want2 /\ val' = e.val
  /\ l' = l + 1

Next == Reset \/ Act
Accepted == TLCGet("stats").diameter = Len(Trace) + 1
=======================================================================
