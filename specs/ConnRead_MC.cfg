SPECIFICATION Spec
CONSTANTS
  F = 1024
  OVH = 18
  BUFSZ = 4096
  MsgLens = {1, 15, 16, 17, 1023, 1024, 1025, 2048}
  MaxMsgs = 2
  CallerBufs = {1, 16, 4096}
  Weak = {}
INVARIANTS NoSpuriousEOFOrError NoNeedlessBlock ExactBytes
VIEW View
CHECK_DEADLOCK FALSE
