INIT Init
NEXT Next
CONSTANT RawKey = {"k1", "k2", "k3"}
POSTCONDITION Accepted
CHECK_DEADLOCK FALSE
