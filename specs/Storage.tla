---------------------------- MODULE Storage ----------------------------
(* Design specification of the key-value store and the pairing database on top of it.
   C18  Storage and pairing database behave like a persistent map

   Code anchors:
     util/file_storage.go:36-50    Set: one file per key, written in place / via a temporary file
     util/file_storage.go:52-75    Get: whole file
     util/file_storage.go:77-95    Delete, KeysWithSuffix (directory listing)
     db/database.go:56-101         SaveEntity / EntityWithName / DeleteEntity / Entities, key = hex(name) + ".entity"
   A file is modelled by the value last written and its physical length (a stale tail makes them differ).
   A guard in Weak is MISSING; Weak = {} is the intended design. *)
EXTENDS Naturals, Sequences, FiniteSets, TLC

CONSTANTS RawKey,     \* keys of the plain store (uuid, version, ...)
          Name,       \* entity names (the database derives the key from the name)
          Val,        \* value tokens
          VLen,       \* [Val -> length]  (bytes of a raw value / of the entity JSON for that key material)
          Weak
Key == RawKey \cup Name
VARIABLES files,   \* [Key -> [v, flen] or Absent]
          last     \* [op, k, v, ret]
vars == <<files, last>>
Guard(g) == g \notin Weak
Absent == [v |-> "absent", flen |-> 0]
Max(a, b) == IF a > b THEN a ELSE b

Init == files = [k \in Key |-> Absent] /\ last = [op |-> "none", k |-> "none", v |-> "none", ret |-> "none", list |-> {}]

Read(k) == IF files[k] = Absent THEN "notfound"
           ELSE IF files[k].flen = VLen[files[k].v] THEN files[k].v ELSE "mixed"

Write(k, v) == [files EXCEPT ![k] = [v |-> v, flen |-> IF Guard("truncate_on_overwrite") THEN VLen[v] ELSE Max(files[k].flen, VLen[v])]]

Set(k, v)    == k \in RawKey /\ files' = Write(k, v) /\ last' = [op |-> "Set", k |-> k, v |-> v, ret |-> "ok", list |-> {}]
Get(k)       == k \in RawKey /\ UNCHANGED files /\ last' = [op |-> "Get", k |-> k, v |-> "none", ret |-> Read(k), list |-> {}]
Delete(k)    == k \in RawKey /\ files' = [files EXCEPT ![k] = Absent] /\ last' = [op |-> "Delete", k |-> k, v |-> "none", ret |-> "ok", list |-> {}]
Save(n, v)   == n \in Name /\ files' = Write(n, v) /\ last' = [op |-> "SaveEntity", k |-> n, v |-> v, ret |-> "ok", list |-> {}]
Load(n)      == n \in Name /\ UNCHANGED files /\ last' = [op |-> "EntityWithName", k |-> n, v |-> "none", ret |-> Read(n), list |-> {}]
Remove(n)    == n \in Name /\ files' = [files EXCEPT ![n] = Absent] /\ last' = [op |-> "DeleteEntity", k |-> n, v |-> "none", ret |-> "ok", list |-> {}]
\* listings return the live keys (an unreadable entity makes Entities fail as a whole: db/database.go:82-88)
Keys         == UNCHANGED files /\ last' = [op |-> "Keys", k |-> "none", v |-> "none", ret |-> "ok", list |-> {k \in RawKey : files[k] # Absent}]
Entities     == UNCHANGED files /\ last' = [op |-> "Entities", k |-> "none", v |-> "none",
                                           ret |-> IF \E n \in Name : Read(n) = "mixed" THEN "error" ELSE "ok",
                                           list |-> {n \in Name : files[n] # Absent}]
Reopen       == UNCHANGED files /\ last' = [op |-> "Reopen", k |-> "none", v |-> "none", ret |-> "ok", list |-> {}]

Next == \/ \E k \in RawKey, v \in Val : Set(k, v)
        \/ \E k \in RawKey : Get(k) \/ Delete(k)
        \/ \E n \in Name, v \in Val : Save(n, v)
        \/ \E n \in Name : Load(n) \/ Remove(n)
        \/ Keys \/ Entities \/ Reopen
Spec == Init /\ [][Next]_vars

\* ---- C18: the abstract map is what the files say
Live(k) == files[k] # Absent
MapRule == \A k \in Key : Live(k) => Read(k) = files[k].v
View == files
=======================================================================
