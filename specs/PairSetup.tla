---------------------------- MODULE PairSetup ----------------------------
(* Design specification of the pair-setup server machine (M1..M6) and the pairing store.
   C02  Pair-setup stores a controller key only after a valid setup-code proof

   Code anchors:
     hap/endpoint/pair-setup.go:44-80                 one controller per connection (session), TLV in / out
     hap/pair/setup_server_controller.go:51-91        Handle: method, step dispatch, reset on a wrong step
     hap/pair/setup_server_controller.go:98-110       handlePairStart  (same salt and B for every start on a connection:
                                                       the SRP server session is created once per controller)
     hap/pair/setup_server_controller.go:120-157      handlePairVerify (step advanced first; A validated by ComputeKey;
                                                       S is set as soon as A is accepted, K only after the proof)
     hap/pair/setup_server_controller.go:169-253      handleKeyExchange
     hap/pair/setup_server_session.go:13-20, 53-75    S (PrivateKey) nil / K (EncryptionKey) all-zero until set
     db/database.go:68-76                             SaveEntity

   Keys are modelled by the number of the verify attempt that produced them (0 = nil / all-zero).
   A guard in Weak is MISSING; Weak = {} is the intended design. *)
EXTENDS Naturals, Sequences, FiniteSets, TLC

CONSTANTS Conn, Ident, MaxAtt, Weak,
          AVals,      \* slice of {"good","zero","N","missing","replay","replay_same"}; replay = A and proof recorded byte for
                      \* byte from an accepted exchange on ANOTHER connection (the proof is then whatever was recorded);
                      \* replay_same = A and proof recorded from an accepted exchange earlier on THIS connection
          Proofs,     \* slice of {"right","wrong","missing","nilkey"}; nilkey = the proof anybody can compute for an SRP
                      \* session whose key was never set (K = empty string)
          Seals,      \* slice of {"this","other","zero","random","nilkey","recorded"}; nilkey = HKDF of an empty secret;
                      \* recorded = the very key-exchange box sent in the accepted exchange recorded on this connection
          Bodies,     \* slice of {"genuine","badsig","mismatch","badtlv","smallorder"}; smallorder = the public key is the
                      \* neutral element of the curve and the signature is (neutral element, 0): Ed25519 verification as
                      \* implemented (no small-order check) accepts it for EVERY message, so it needs no knowledge of S
          Shapes      \* slice of {"ok","tagflip","ctflip","short","empty"}

VARIABLES step,    \* [Conn -> {"Waiting","StartResp","VerifyResp","Done"}]
          S,       \* [Conn -> 0..MaxAtt]  server's SRP secret: id of the attempt that set it (0 = nil)
          K,       \* [Conn -> 0..MaxAtt+1]  server's encryption key (0 = all-zero, Deg = HKDF of a nil secret: public)
          att,     \* [Conn -> 0..MaxAtt]  verify attempts with an acceptable A so far
          pS,      \* [Conn -> 0..MaxAtt]  the secret / key the PEER holds (0 = none; it can always use nil / zero)
          proved,  \* [Conn -> BOOLEAN]    ghost: a right proof was accepted since the last accepted start
          rec,     \* [Conn -> 0..MaxAtt]  the attempt whose verify (and key exchange) an eavesdropper recorded on this connection
          store,   \* SUBSET Ident
          last

vars == <<step, S, K, att, pS, proved, rec, store, last>>
Guard(g) == g \notin Weak
Deg == MaxAtt + 1

Init == /\ step = [c \in Conn |-> "Waiting"] /\ S = [c \in Conn |-> 0] /\ K = [c \in Conn |-> 0]
        /\ att = [c \in Conn |-> 0] /\ pS = [c \in Conn |-> 0] /\ proved = [c \in Conn |-> FALSE] /\ rec = [c \in Conn |-> 0]
        /\ store = {} /\ last = [c |-> "none", m |-> [t |-> "none"], r |-> "none"]

Reply(c, m, r) == last' = [c |-> c, m |-> m, r |-> r]
Reset(c) == step' = [step EXCEPT ![c] = "Waiting"]

\* ---- M1: :63-70, 98-110
Start(c) ==
  LET m == [t |-> "Start"] IN
  /\ IF step[c] = "Waiting"
     THEN /\ step' = [step EXCEPT ![c] = "StartResp"]
          /\ proved' = [proved EXCEPT ![c] = FALSE]
          /\ Reply(c, m, "M2")
     ELSE /\ Reset(c) /\ proved' = proved /\ Reply(c, m, "HttpError")
  /\ UNCHANGED <<S, K, att, pS, rec, store>>

\* ---- unknown method (:53-59) / unknown step (:85-87): no state change
Reject(c, kind) ==
  /\ kind \in {"BadMethod", "UnknownStep"}
  /\ Reply(c, [t |-> kind], "HttpError")
  /\ UNCHANGED <<step, S, K, att, pS, proved, rec, store>>

\* ---- M3: :71-77, 120-157
Verify(c, A, proof) ==
  LET m == [t |-> "Verify", A |-> A, proof |-> proof] IN
  /\ A \in AVals /\ proof \in Proofs
  /\ A \in {"good", "replay"} => att[c] < MaxAtt
  /\ A = "replay" => (proof = "right" /\ \E o \in Conn \ {c} : pS[o] # 0)
  /\ A = "replay_same" => (proof = "right" /\ rec[c] # 0)
  /\ IF step[c] # "StartResp"
     THEN /\ Reset(c) /\ Reply(c, m, "HttpError") /\ UNCHANGED <<S, K, att, pS, proved, rec, store>>
     ELSE IF A = "replay_same"
     \* The SRP server session (b, B, salt) is made anew whenever the machine is reset (guard session_fresh_after_reset), so a
     \* verify message recorded in an earlier exchange on this connection carries a proof for another B.  Without the guard
     \* B never changes on a connection: the recorded proof is right again and yields the recorded keys.
     THEN IF Guard("session_fresh_after_reset")
          THEN /\ Reset(c) /\ Reply(c, m, "M4err2") /\ UNCHANGED <<S, K, att, pS, proved, rec, store>>
          ELSE /\ step' = [step EXCEPT ![c] = "VerifyResp"]
               /\ S' = [S EXCEPT ![c] = rec[c]] /\ K' = [K EXCEPT ![c] = rec[c]]
               /\ Reply(c, m, "M4proof") /\ UNCHANGED <<att, pS, proved, rec, store>>
     ELSE IF A \notin {"good", "replay"}      \* ComputeKey rejects A mod N = 0 (a missing A is empty = 0): :128-131
     THEN IF Guard("bad_A_stops_exchange")
          THEN /\ step' = [step EXCEPT ![c] = IF Guard("verify_bad_A_resets") THEN "Waiting" ELSE "VerifyResp"]
               /\ Reply(c, m, "HttpError") /\ UNCHANGED <<S, K, att, pS, proved, rec, store>>
          \* without that guard the proof is compared with the one of a session whose key is whatever it was before
          \* (nil unless an earlier A was accepted), and the encryption key is derived from that secret
          ELSE IF proof = "nilkey" /\ S[c] = 0
          THEN /\ step' = [step EXCEPT ![c] = "VerifyResp"] /\ K' = [K EXCEPT ![c] = Deg]
               /\ Reply(c, m, "M4proof") /\ UNCHANGED <<S, att, pS, proved, rec, store>>
          ELSE /\ Reset(c) /\ Reply(c, m, "M4err2") /\ UNCHANGED <<S, K, att, pS, proved, rec, store>>
     ELSE LET n == att[c] + 1 IN
          /\ att' = [att EXCEPT ![c] = n]
          /\ S' = [S EXCEPT ![c] = n]                       \* set before the proof is looked at
          /\ IF proof = "right" /\ A = "good"      \* a replayed proof was computed for another B: it is wrong here
             THEN /\ step' = [step EXCEPT ![c] = "VerifyResp"]
                  /\ K' = [K EXCEPT ![c] = n] /\ pS' = [pS EXCEPT ![c] = n]
                  /\ proved' = [proved EXCEPT ![c] = TRUE] /\ UNCHANGED rec
                  /\ Reply(c, m, "M4proof")
             ELSE /\ step' = [step EXCEPT ![c] = IF Guard("wrong_proof_resets") THEN "Waiting" ELSE "VerifyResp"]
                  /\ Reply(c, m, "M4err2")
                  /\ UNCHANGED <<K, pS, proved, rec>>
          /\ UNCHANGED store

\* ---- M5: :78-84, 169-253
\* seal: "this"  the key the peer derived in its latest accepted proof on this connection
\*       "other" a box recorded on another connection / under another exchange's key
\*       "zero"  the all-zero key        "random"  a random key
Opens(c, seal, shape) ==
  \/ ~Guard("aead_checked") /\ shape \notin {"short", "empty"}
  \/ /\ shape = "ok"
     /\ \/ seal = "this" /\ pS[c] # 0 /\ K[c] = pS[c]
        \/ seal = "zero" /\ K[c] = 0
        \/ seal = "nilkey" /\ K[c] = Deg
        \/ seal = "recorded" /\ rec[c] # 0 /\ K[c] = rec[c]
\* the signature covers HKDF(S): it verifies when the peer signed with the secret the server holds
SigOK(c, seal, body) ==
  \/ body = "smallorder"
  \/ body = "genuine" /\ S[c] = (IF seal = "this" THEN pS[c] ELSE IF seal = "recorded" THEN rec[c] ELSE 0)
  \/ body \in {"badsig", "mismatch"} /\ ~Guard("signature_checked")

Kex(c, seal, body, shape, id) ==
  LET m == [t |-> "Kex", seal |-> seal, body |-> body, shape |-> shape, id |-> id] IN
  /\ seal \in Seals /\ body \in Bodies /\ shape \in Shapes
  /\ seal = "this" => pS[c] # 0                    \* a peer cannot seal under a key it does not hold
  /\ seal = "recorded" => (rec[c] # 0 /\ body = "genuine" /\ shape = "ok")   \* the recorded bytes as they were
  /\ IF step[c] # "VerifyResp" /\ Guard("step_checked_before_kex")
     THEN /\ Reset(c) /\ Reply(c, m, "HttpError") /\ UNCHANGED <<S, K, att, pS, proved, rec, store>>
     ELSE IF shape \in {"short", "empty"}
     THEN /\ Reset(c) /\ Reply(c, m, "M6err") /\ UNCHANGED <<S, K, att, pS, proved, rec, store>>
     ELSE IF ~Opens(c, seal, shape)
     THEN /\ Reset(c) /\ Reply(c, m, "M6err") /\ UNCHANGED <<S, K, att, pS, proved, rec, store>>
     ELSE IF body = "badtlv"
     THEN /\ step' = [step EXCEPT ![c] = "Done"] /\ Reply(c, m, "HttpError")
          /\ UNCHANGED <<S, K, att, pS, proved, rec, store>>
     ELSE IF ~SigOK(c, seal, body)
     THEN /\ Reset(c) /\ Reply(c, m, "M6err") /\ UNCHANGED <<S, K, att, pS, proved, rec, store>>
     ELSE /\ step' = [step EXCEPT ![c] = "Done"]
          /\ store' = store \cup {id}
          /\ Reply(c, m, "M6ok")
          \* an eavesdropper has now seen a complete accepted exchange on this connection
          /\ rec' = [rec EXCEPT ![c] = IF seal = "this" /\ K[c] <= MaxAtt THEN K[c] ELSE @]
          /\ UNCHANGED <<S, K, att, pS, proved>>

Next == \E c \in Conn :
          \/ Start(c)
          \/ \E k \in {"BadMethod", "UnknownStep"} : Reject(c, k)
          \/ \E A \in AVals, p \in Proofs : Verify(c, A, p)
          \/ \E s \in Seals, b \in Bodies, sh \in Shapes, id \in Ident : Kex(c, s, b, sh, id)

Spec == Init /\ [][Next]_vars

\* ---------------------------------------------------------------- the property
\* the store changes only in a step whose message is a genuine, well-formed key exchange sealed under the key of
\* a proof accepted in the current exchange on the same connection, and then by exactly that identity
StoreRuleP(st, st2, m, prv) ==
  IF st2 # st
  THEN m.t = "Kex" /\ m.seal = "this" /\ m.body \in {"genuine", "smallorder"} /\ m.shape = "ok" /\ prv /\ st2 = st \cup {m.id}
  ELSE TRUE

StoreRule == [][ StoreRuleP(store, store', last'.m, IF last'.c \in Conn THEN proved[last'.c] ELSE FALSE) ]_vars

TypeOK == /\ step \in [Conn -> {"Waiting", "StartResp", "VerifyResp", "Done"}]
          /\ S \in [Conn -> 0..MaxAtt] /\ K \in [Conn -> 0..MaxAtt + 1] /\ pS \in [Conn -> 0..MaxAtt]
          /\ store \subseteq Ident
KeyNeedsProof == \A c \in Conn : K[c] # 0 => pS[c] = K[c]      \* in particular K is never Deg

View == <<step, S, K, att, pS, proved, rec, store>>
=======================================================================
