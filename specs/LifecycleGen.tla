---------------------------- MODULE LifecycleGen ----------------------------
EXTENDS Lifecycle, Json
VARIABLES hist, bad
GInit == Init /\ hist = <<>> /\ bad = FALSE
StepBad == \/ ~IdentityStable' \/ ~SfRule'
           \/ (last'[1] = "start" /\ ~(IF last'[3] # None /\ last'[3] # last'[2] THEN txt'.cnum > last'[4]
                                        ELSE IF last'[3] # None THEN txt'.cnum = last'[4] ELSE TRUE))
           \/ (last'[1] \in {"start", "stop", "values"} /\ disk'.pairings # disk.pairings)
GNext == /\ Next
         /\ hist' = Append(hist, [a |-> last'[1], x |-> IF Len(last') >= 2 THEN last'[2] ELSE "none"])
         /\ bad' = (bad \/ StepBad)
MaxLen == 5
WordBound == Len(hist) <= MaxLen /\ Bound
EmitWord == Len(hist) = MaxLen => PrintT(<<"BEH", ToJson(hist)>>)
EmitEdge == Len(hist) > 0 => PrintT(<<"BEH", ToJson(hist)>>)
EdgeView == <<View, last>>
NoAttack == IF bad THEN ~PrintT(<<"BEH", ToJson(hist)>>) ELSE TRUE
AttackView == <<View, bad>>
=======================================================================
