---------------------------- MODULE Responses ----------------------------
(* Design specification of responses in flight to several verified controllers at the same time.
   C09  What the application sets is what a controller reads: also when another controller's request is served while the
        response of this one is still being written (its reader is slow, the socket is full).

   Code anchors: hap/http/json.go (JSONEncode, WriteJSON: the body is encoded into a buffer and written in 2048-byte chunks),
   hap/http/accessories.go, hap/http/characteristics.go (handlers of different connections run concurrently),
   hap/connection.go (every chunk is sealed and written under the connection's write mutex).

   A response is N chunks written from a buffer.  Intended design: the buffer belongs to the response until its last chunk is
   written (guard buffer_owned_until_written).  Without the guard the buffer goes back to a pool as soon as the bytes were
   taken from it, and the next response that is encoded overwrites what an unfinished one still has to write.
   A guard in Weak is MISSING. *)
EXTENDS Naturals, Sequences, FiniteSets, TLC
CONSTANTS Ctrl, Weak
VARIABLES out,    \* [Ctrl -> "idle" | "big" | "small"]  the request of c that is not answered completely yet
          buf,    \* [Ctrl -> buffer]  the buffer its response is written from
          owner,  \* [buffer -> Ctrl]  whose response the buffer holds NOW
          sent,   \* [Ctrl -> Nat]     chunks written so far
          tags,   \* [Ctrl -> Seq(Ctrl)]  for every chunk written: whose content it carried
          cut,    \* [Ctrl -> BOOLEAN]   an EVENT message was written between two chunks of the response in flight
          bigq,   \* Seq(Ctrl)  the controllers whose GET /accessories is not answered completely yet, in the order of arrival
          last
vars == <<out, buf, owner, sent, tags, cut, bigq, last>>
Guard(g) == g \notin Weak
Buffers == Ctrl \cup {"pool"}
\* kinds: "big" = GET /accessories, "small" = GET /characteristics for a long list of ids.  The attribute database is encoded
\* under the server's lock and written after the lock was released (guard accessories_written_outside_the_lock): a controller
\* that reads slowly does not keep the others waiting.  Without the guard the handler holds the lock while it writes: a second
\* GET /accessories is not answered before the first one was read to the end.  Neither fits into the
\* socket: only Window chunks can be written before the controller reads.
Chunks(k) == 3
Window == 1

Init == /\ out = [c \in Ctrl |-> "idle"] /\ buf = [c \in Ctrl |-> c] /\ owner = [b \in Buffers |-> "none"]
        /\ sent = [c \in Ctrl |-> 0] /\ tags = [c \in Ctrl |-> <<>>] /\ cut = [c \in Ctrl |-> FALSE] /\ bigq = <<>> /\ last = [a |-> "none", c |-> "none", k |-> "none", ok |-> TRUE]

\* the controller sends a request; the handler encodes the response into a buffer
Send(c, k) == /\ out[c] = "idle" /\ out' = [out EXCEPT ![c] = k]
              /\ bigq' = IF k = "big" THEN Append(bigq, c) ELSE bigq
              /\ LET b == IF Guard("buffer_owned_until_written") THEN c ELSE "pool" IN
                 /\ buf' = [buf EXCEPT ![c] = b] /\ owner' = [owner EXCEPT ![b] = c]
              /\ sent' = [sent EXCEPT ![c] = 0] /\ tags' = [tags EXCEPT ![c] = <<>>] /\ UNCHANGED cut
              /\ last' = [a |-> "Send", c |-> c, k |-> k, ok |-> TRUE]
\* the server writes the next chunk as long as the socket takes it (internal step)
Write(c) == /\ out[c] # "idle" /\ sent[c] < Chunks(out[c]) /\ sent[c] < Window
            /\ sent' = [sent EXCEPT ![c] = @ + 1] /\ tags' = [tags EXCEPT ![c] = Append(@, owner[buf[c]])]
            /\ last' = [a |-> "Write", c |-> c, k |-> out[c], ok |-> TRUE] /\ UNCHANGED <<out, buf, owner, cut, bigq>>
\* the controller reads its response to the end: the remaining chunks are written and delivered
Receive(c) == /\ out[c] # "idle" /\ sent[c] >= (IF Chunks(out[c]) < Window THEN Chunks(out[c]) ELSE Window)
              /\ LET rest == [i \in 1..(Chunks(out[c]) - sent[c]) |-> owner[buf[c]]]
                     all == tags[c] \o rest
                     \* a response that has to wait for another controller to read ITS response never completes in time
                     served == out[c] # "big" \/ Guard("accessories_written_outside_the_lock") \/ Head(bigq) = c IN
                 last' = [a |-> "Receive", c |-> c, k |-> out[c], ok |-> (served /\ ~cut[c] /\ \A i \in 1..Len(all) : all[i] = c)]
              /\ out' = [out EXCEPT ![c] = "idle"] /\ sent' = [sent EXCEPT ![c] = 0] /\ tags' = [tags EXCEPT ![c] = <<>>]
              /\ cut' = [cut EXCEPT ![c] = FALSE]
              /\ bigq' = SelectSeq(bigq, LAMBDA x : x # c)
              /\ UNCHANGED <<buf, owner>>
\* The application changes a value every controller is subscribed to.  A controller whose response is in flight gets its
\* EVENT message after the response (guard notifications_wait_for_response); without the guard the message is written
\* between two chunks of the response, which the controller then cannot parse.
Event == /\ cut' = [c \in Ctrl |-> cut[c] \/ (out[c] # "idle" /\ sent[c] < Chunks(out[c]) /\ ~Guard("notifications_wait_for_response"))]
         /\ last' = [a |-> "Event", c |-> "app", k |-> "none", ok |-> TRUE]
         /\ UNCHANGED <<out, buf, owner, sent, tags, bigq>>
\* The accessory sends its periodic keep-alive (an EVENT message without a body) to every connection (hap/keep_alive.go).
\* Like a notification it must wait for a response in flight (guard keepalives_wait_for_response).
KeepAlive == /\ cut' = [c \in Ctrl |-> cut[c] \/ (out[c] # "idle" /\ sent[c] < Chunks(out[c]) /\ ~Guard("keepalives_wait_for_response"))]
             /\ last' = [a |-> "KeepAlive", c |-> "app", k |-> "none", ok |-> TRUE]
             /\ UNCHANGED <<out, buf, owner, sent, tags, bigq>>
Next == (\E c \in Ctrl : (\E k \in {"big", "small"} : Send(c, k)) \/ Write(c) \/ Receive(c)) \/ Event \/ KeepAlive
Spec == Init /\ [][Next]_vars

\* ---- C09 under concurrency: every response carries its own content from the first to the last chunk
OwnResponse == last.a = "Receive" => last.ok
=======================================================================
