---------------------------- MODULE Robust ----------------------------
(* Design specification of how the accessory treats input it cannot process.
   C13  No remote input panics or wedges the accessory

   A scenario = an endpoint, a protocol state reached by a prefix of a correct exchange, and a class of malformed input.
   The server answers, stays alive, and returns to a state from which a correct handshake succeeds (on the same connection
   after at most one rejected start).
   Code anchors: hap/endpoint/pair-setup.go, pair-verify.go, pairings.go, resource.go; hap/http/characteristics.go;
   hap/pair/setup_server_controller.go:169-199, verify_server_controller.go:145-165 (length of the encrypted item, AEAD
   failure); util/tlv8.go:25-50 (parser); characteristic/characteristic.go:121-134 (comparison of written values).
   A guard in Weak is MISSING. *)
EXTENDS Naturals, Sequences, FiniteSets, TLC
CONSTANTS Weak
VARIABLES sc,        \* the scenario: [ep, st, cls]
          phase,     \* "send" | "same" | "new" | "done"
          step,      \* pairing machine of the connection under test: "Waiting" | "Mid"
          alive,     \* the process still serves
          open,      \* the connection under test is still open
          reply,     \* what the malformed message was answered with: "none" | "error" | "ok" | "dropped"
          rejected,  \* rejected starts so far on the same connection
          sameOK, newOK
vars == <<sc, phase, step, alive, open, reply, rejected, sameOK, newOK>>
Guard(g) == g \notin Weak

TLVClasses == {"garbage", "truncated", "overlong_item", "dup_item", "missing_item", "short_enc", "wrong_tag", "empty_body", "unknown_method", "unknown_step", "huge",
               "inner_damaged"}      \* a correctly sealed box whose inner TLV is damaged (missing / mis-sized key, signature, identifier; garbage)
JSONClasses == {"not_json", "wrong_types", "huge_number", "deep_nesting", "composite_value", "composite_twice", "empty_body", "odd_query",
                "nonfinite_value"}    \* a string that parses to an infinite number or to no number ("-1e999", "NaN") for a float without declared bounds
Scenarios ==
  [ep : {"pair-setup"}, st : {"fresh", "afterM2", "afterM4"}, cls : TLVClasses]
  \cup [ep : {"pair-verify"}, st : {"fresh", "afterV2"}, cls : TLVClasses]
  \* not malformed at all: a CORRECT start request, sent after a second connection from the same remote address and port
  \* (to another local address of the accessory) was opened and closed.  The state of a connection belongs to that
  \* connection (guard session_keyed_by_connection); keyed by the remote address alone, the twin replaces and then
  \* removes it, and the handler of the next request finds nothing.
  \cup [ep : {"pair-setup", "pair-verify"}, st : {"fresh"}, cls : {"twin_closed"}]
  \* well-formed, but the public key is a degenerate group element: a Curve25519 point of low order in a pair-verify start
  \* (in every state), an SRP key that is 0 modulo the prime in a pair-setup verify request
  \cup [ep : {"pair-verify"}, st : {"fresh", "afterV2"}, cls : {"degenerate_key"}]
  \cup [ep : {"pair-setup"}, st : {"afterM2"}, cls : {"degenerate_key"}]
  \cup [ep : {"pairings"}, st : {"unverified", "verified"}, cls : TLVClasses \ {"short_enc", "wrong_tag", "inner_damaged"}]
  \cup [ep : {"characteristics-put", "characteristics-get", "resource", "accessories", "identify"}, st : {"unverified", "verified"}, cls : JSONClasses]

Pairing == sc.ep \in {"pair-setup", "pair-verify"}
Init == /\ sc \in Scenarios /\ phase = "send"
        /\ step = (IF sc.st \in {"afterM2", "afterM4", "afterV2"} THEN "Mid" ELSE "Waiting")
        /\ alive = TRUE /\ open = TRUE /\ reply = "none" /\ rejected = 0 /\ sameOK = FALSE /\ newOK = FALSE

\* does this input reach code that panics?
Panics ==
  \/ sc.cls = "twin_closed" /\ ~Guard("session_keyed_by_connection")
  \/ sc.cls = "short_enc" /\ sc.st \in {"afterM4", "afterV2"} /\ ~Guard("enc_length_checked")
  \/ sc.cls = "degenerate_key" /\ ~Guard("degenerate_keys_answered")
  \/ sc.cls \in {"wrong_tag", "garbage"} /\ sc.st \in {"afterM4", "afterV2"} /\ sc.cls = "wrong_tag" /\ ~Guard("aead_failure_answered")
  \/ sc.cls = "composite_twice" /\ sc.ep = "characteristics-put" /\ sc.st = "verified" /\ ~Guard("values_comparable")

\* does this input leave something behind that the accessory cannot serve any more?  A value that cannot be encoded as JSON
\* (guard nonfinite_values_stay_encodable: such a value is replaced by a finite one when it is stored) makes every later
\* GET /accessories fail, for every controller.
Wedges == sc.cls = "nonfinite_value" /\ sc.ep = "characteristics-put" /\ sc.st = "verified" /\ ~Guard("nonfinite_values_stay_encodable")

\* the malformed message is sent
Send == /\ phase = "send"
        /\ IF Panics
           THEN reply' = "dropped" /\ open' = FALSE /\ UNCHANGED step        \* net/http recovers the panic and drops the connection
           ELSE /\ reply' = (IF sc.cls = "twin_closed" \/ (sc.cls = "degenerate_key" /\ sc.ep = "pair-verify") \/ sc.ep = "identify" \/ (sc.cls = "empty_body" /\ sc.ep \in {"accessories", "characteristics-get"}) THEN "ok" ELSE "error")
                /\ open' = TRUE
                \* unknown method / step leave the machine where it was (no reset); everything else resets it
                /\ step' = IF Pairing /\ sc.cls \in {"unknown_method", "unknown_step"} THEN step
                           ELSE IF sc.cls = "twin_closed" \/ (sc.cls = "degenerate_key" /\ sc.ep = "pair-verify") THEN "Mid" ELSE "Waiting"
        /\ alive' = (alive /\ ~Wedges)
        /\ phase' = "same" /\ UNCHANGED <<sc, rejected, sameOK, newOK>>

\* a correct handshake on the same connection: a start in mid-exchange is rejected once and resets the machine
Same == /\ phase = "same"
        /\ IF ~open \/ ~Pairing THEN sameOK' = (open /\ alive) /\ UNCHANGED <<step, rejected>> /\ phase' = "new"
           ELSE IF step = "Mid" THEN step' = "Waiting" /\ rejected' = rejected + 1 /\ UNCHANGED <<sameOK, phase>>
           ELSE sameOK' = TRUE /\ UNCHANGED <<step, rejected>> /\ phase' = "new"
        /\ UNCHANGED <<sc, alive, open, reply, newOK>>
New == /\ phase = "new" /\ newOK' = alive /\ phase' = "done"
       /\ UNCHANGED <<sc, step, alive, open, reply, rejected, sameOK>>
Next == Send \/ Same \/ New
Spec == Init /\ [][Next]_vars

\* ---- C13
Answered == phase # "send" => reply \in {"error", "ok"}
Recovers == phase = "done" => (newOK /\ (open => sameOK) /\ rejected <= 1)
=======================================================================
