---------------------------- MODULE AccessoryTrace ----------------------------
(* Monitor for the top-level composition: end-to-end histories on real transports (harness family "e2e").
   Ghost: stored controllers (from accepted pair / remove actions), which connection is verified as whom, who asked for
   events, the value.  Every rule is the composition-level face of a listed property and is reported under it. *)
EXTENDS Naturals, Sequences, FiniteSets, TLC, Json, IOUtils
VARIABLES l, paired, who, want, val, done
Trace == ndJsonDeserialize(IOEnv.TRACE)
SetOf(s) == {s[i] : i \in 1..Len(s)}
Report(rule, ok) == IF ok THEN TRUE ELSE PrintT(<<"VIOL", rule, l>>)
None == "none"
Init == l = 1 /\ paired = {} /\ who = << >> /\ want = {} /\ val = 0 /\ done = {}
Ver(k) == k \in DOMAIN who
Put(k, c) == [x \in DOMAIN who \cup {k} |-> IF x = k THEN c ELSE who[x]]
Del(k) == [x \in DOMAIN who \ {k} |-> who[x]]
Next ==
  /\ l <= Len(Trace)
  /\ LET e == Trace[l] IN
     IF e.ev = "reset" THEN paired' = {} /\ who' = << >> /\ want' = {} /\ val' = 0 /\ done' = {}
     ELSE IF e.skipped THEN UNCHANGED <<paired, who, want, val, done>>
     ELSE
       LET ok == e.res = "ok"
           paired2 == IF e.a \in {"Pair", "Add"} /\ ok THEN paired \cup {e.x} ELSE IF e.a \in {"Remove", "RemoveDuring"} /\ ok THEN paired \ {e.x} ELSE paired
           changed == e.a \in {"Write", "Local"} /\ e.running /\ e.val # val /\ (e.a = "Local" \/ ok)
           expected == IF changed THEN {k \in want : k # e.k /\ Ver(k)} ELSE {}
       IN
       \* C03: verification succeeds exactly for a stored controller
       /\ Report("E2E-Verify", e.a = "Verify" => (ok <=> e.x \in paired))
       \* ... a verification that overlaps the removal of its pairing (e.vres) may go either way, one for a controller that
       \* was not stored before either may not succeed
       /\ Report("E2E-Verify", (e.a = "RemoveDuring" /\ e.vres = "ok") => e.x \in paired)
       \* C04: the honest controller that knows the code pairs on a connection whose pair-setup machine is at its start
       \* (that a finished machine refuses a second exchange and is reset by the refusal is the code's behaviour, modelled in
       \* Accessory.tla and followed here through done, but no listed property demands it)
       /\ Report("E2E-Pair", (e.a = "Pair" /\ e.k \notin done) => ok)
       \* C01: gated operations are served exactly on verified connections
       /\ Report("E2E-Gate", e.a \in {"Read", "Sub", "Unsub", "Write", "Remove", "Add", "RemoveDuring"} => (ok <=> Ver(e.k)))
       \* C01: nothing is disclosed to a connection that is not verified
       /\ Report("E2E-Leak", e.running => \A k \in SetOf(e.got) : (Ver(k) \/ (e.a = "Verify" /\ ok /\ k = e.k)))
       \* C10: events go to exactly the verified, subscribed others
       /\ Report("E2E-Events", e.running => SetOf(e.got) = expected)
       \* C20: discoverable iff nothing is paired; pairings survive restarts; values do not leak into identity
       /\ Report("E2E-Sf", e.running => ((e.sf = 1) <=> (paired2 = {})))
       /\ Report("E2E-Pairings", e.running => SetOf(e.paired) = {"e2e-" \o c : c \in paired2})
       /\ paired' = paired2
       /\ who' = IF e.a = "Verify" /\ ok THEN Put(e.k, e.x)
                 ELSE IF e.a = "RemoveDuring" /\ e.res = "dropped" THEN Del(e.k)
                 ELSE IF e.a = "RemoveDuring" /\ e.vres = "ok" THEN Put(e.k2, e.x)
                 ELSE IF e.a = "Close" \/ e.res = "dropped" THEN Del(e.k)
                 ELSE IF e.a \in {"Stop", "Start"} THEN << >> ELSE who
       /\ want' = IF e.a = "Sub" /\ ok THEN want \cup {e.k}
                  ELSE IF e.a = "Unsub" /\ ok THEN want \ {e.k}
                  ELSE IF e.a = "Close" \/ e.res = "dropped" THEN want \ {e.k}
                  ELSE IF e.a \in {"Stop", "Start"} THEN {} ELSE want
       /\ val' = IF e.running THEN e.val ELSE 0
       /\ done' = IF e.a = "Pair" /\ ok THEN done \cup {e.k} ELSE IF e.a = "Pair" \/ e.a = "Close" \/ e.res = "dropped" THEN done \ {e.k} ELSE IF e.a \in {"Stop", "Start"} THEN {} ELSE done
  /\ l' = l + 1
Accepted == TLCGet("stats").diameter = Len(Trace) + 1
=======================================================================
