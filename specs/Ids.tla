---------------------------- MODULE Ids ----------------------------
(* Design specification of accessory and instance id assignment.
   C14  Accessory and instance ids are unique, stable and well-formed
   Code anchors: accessory/container.go:27-43 (AddAccessory: automatic ids from a counter, explicit ids kept, duplicates
   rejected), accessory/accessory.go:111-121 (UpdateIDs: services and characteristics numbered consecutively from the
   accessory's counter), accessory/accessory.go:31-78 (New: the information service comes first).
   The assignment is a deterministic function of the construction word, so rebuilding yields the same ids.
   It is also idempotent: numbering an accessory again (it is added to another container, a service is added later)
   starts from 1 again and gives every service and characteristic the id it had (guard numbering_restarts_at_one); an
   implementation that keeps counting where the last numbering stopped hands out new ids every time. *)
EXTENDS Naturals, Sequences, FiniteSets, TLC
CONSTANTS MaxAcc, Explicit, Shapes, Weak
VARIABLES accs,      \* the accessories of the container: sequence of [aid, iids (sequence)]
          idCount,   \* the container's counter
          index,     \* the ids the container holds for taken (its index; an id stays taken when its accessory is removed)
          word       \* the construction word so far: sequence of [op, explicit, shape, accepted]
vars == <<accs, idCount, index, word>>
Guard(g) == g \notin Weak

\* ids of an accessory with services of the given characteristic counts: the information service (6 characteristics) first
RECURSIVE Number(_, _)
Number(shape, from) == IF shape = <<>> THEN <<>>
                       ELSE [i \in 1..(1 + Head(shape)) |-> from + i - 1] \o Number(Tail(shape), from + 1 + Head(shape))
IidsOf(shape) == Number(<<6>> \o shape, IF Guard("iid_counter_starts_at_one") THEN 1 ELSE 0)
\* the ids after the accessory has been numbered n times (n >= 1)
IidsAfter(shape, n) == IF Guard("numbering_restarts_at_one") THEN IidsOf(shape)
                       ELSE Number(<<6>> \o shape, 1 + (n - 1) * Len(IidsOf(shape)))
Idempotent == \A sh \in Shapes : IidsAfter(sh, 2) = IidsAfter(sh, 1)

Init == accs = <<>> /\ idCount = 1 /\ index = {} /\ word = <<>>
Add(e, sh) ==
  /\ Len(word) < MaxAcc
  /\ LET used == index
         \* an automatic id is the next one of the counter that no accessory of the container carries (guard
         \* automatic_id_skips_taken): an accessory that leaves the numbering to the container is never refused
         free == IF Guard("automatic_id_skips_taken") THEN CHOOSE n \in idCount..(idCount + Cardinality(index)) : n \notin used ELSE idCount
         aid == IF e = 0 THEN free ELSE e
         dup == aid \in used
         take == ~dup \/ ~Guard("duplicate_rejected") IN
     /\ idCount' = IF e = 0 THEN free + 1 ELSE idCount
     /\ accs' = IF take THEN Append(accs, [aid |-> aid, iids |-> IidsOf(sh)]) ELSE accs
     /\ index' = IF take THEN index \cup {aid} ELSE index
     /\ word' = Append(word, [op |-> "add", explicit |-> e, shape |-> sh, accepted |-> take])
\* the application removes the k-th accessory of the container: the id stays in the index (container.go RemoveAccessory)
RemoveMember(k) ==
  /\ Len(word) < MaxAcc /\ k \in 1..Len(accs)
  /\ accs' = [i \in 1..(Len(accs) - 1) |-> IF i < k THEN accs[i] ELSE accs[i + 1]]
  /\ word' = Append(word, [op |-> "remove", explicit |-> k, shape |-> <<>>, accepted |-> TRUE])
  /\ UNCHANGED <<idCount, index>>
\* the application "removes" the accessory whose add was refused last (it tidies up after the error): that accessory is
\* no member, nothing changes.  An accessory is removed by identity (guard remove_by_identity); removing by id number
\* frees the id of the MEMBER that carries the same number.
Refused == {i \in 1..Len(word) : word[i].op = "add" /\ ~word[i].accepted /\ word[i].explicit # 0}
RemoveRefused ==
  /\ Len(word) < MaxAcc /\ Refused # {}
  /\ LET e == word[CHOOSE i \in Refused : \A j \in Refused : j <= i].explicit IN
     index' = IF Guard("remove_by_identity") THEN index ELSE index \ {e}
  /\ word' = Append(word, [op |-> "removerefused", explicit |-> 0, shape |-> <<>>, accepted |-> TRUE])
  /\ UNCHANGED <<accs, idCount>>
\* the application adds a characteristic to the last service of the k-th accessory, which is in the container already (the
\* optional characteristics of the library's services are added that way: NewLightbulb, then Hue and Saturation).  The ids
\* follow (guard ids_follow_late_characteristics): the new characteristic gets the next id; a service that does not tell
\* its accessory leaves it with id 0.
LateChar(k) ==
  /\ Len(word) < MaxAcc /\ k \in 1..Len(accs)
  /\ accs' = [accs EXCEPT ![k].iids = Append(@, IF Guard("ids_follow_late_characteristics") THEN Len(@) + (IF Guard("iid_counter_starts_at_one") THEN 1 ELSE 0) ELSE 0)]
  /\ word' = Append(word, [op |-> "latechar", explicit |-> k, shape |-> <<>>, accepted |-> TRUE])
  /\ UNCHANGED <<idCount, index>>
Next == \/ \E e \in Explicit, sh \in Shapes : Add(e, sh)
        \/ \E k \in 1..MaxAcc : LateChar(k)
        \/ \E k \in 1..MaxAcc : RemoveMember(k)
        \/ RemoveRefused
Spec == Init /\ [][Next]_vars

Range(s) == {s[i] : i \in 1..Len(s)}
UniqueAids == \A i, j \in 1..Len(accs) : i # j => accs[i].aid # accs[j].aid
NonZero == \A i \in 1..Len(accs) : accs[i].aid # 0 /\ 0 \notin Range(accs[i].iids)
AutomaticAccepted == \A i \in 1..Len(word) : (word[i].op = "add" /\ word[i].explicit = 0) => word[i].accepted
UniqueIids == \A i \in 1..Len(accs) : Cardinality(Range(accs[i].iids)) = Len(accs[i].iids)
=======================================================================
