---------------------------- MODULE PairSetupTrace ----------------------------
(* Monitor for C02: replays an ndjson trace recorded from the real /pair-setup endpoint (harness family "pairsetup").
   Ghost state (proved) is computed from what was sent and what was observed only, so an implementation that resets
   more or less eagerly than today's is judged by the same rule. *)
EXTENDS Naturals, Sequences, FiniteSets, TLC, Json, IOUtils

VARIABLES l, proved, store
Trace == ndJsonDeserialize(IOEnv.TRACE)
SetOf(s) == {s[i] : i \in 1..Len(s)}
Report(rule, ok) == IF ok THEN TRUE ELSE PrintT(<<"VIOL", rule, l>>)

Init == l = 1 /\ proved = {} /\ store = {}

Reset == /\ l <= Len(Trace) /\ Trace[l].ev = "reset"
         /\ proved' = {} /\ store' = SetOf(Trace[l].store) /\ l' = l + 1

\* the predicate of PairSetup.tla
StoreRuleP(st, st2, m, prv) ==
  IF st2 # st
  THEN m.t = "Kex" /\ m.seal = "this" /\ m.body \in {"genuine", "smallorder"} /\ m.shape = "ok" /\ prv /\ st2 = st \cup {m.id}
  ELSE TRUE

AcceptedStart(e) == e.m.t = "Start" /\ e.http = 200 /\ e.state = 2 /\ e.err = 0
\* a right proof for an acceptable A was answered with the accessory's own (verified) proof: the peer now holds the key
AcceptedProof(e) == e.m.t = "Verify" /\ e.m.A = "good" /\ e.m.proof = "right"
                    /\ e.http = 200 /\ e.state = 4 /\ e.err = 0 /\ e.proof /\ e.holds

Msg == /\ l <= Len(Trace) /\ Trace[l].ev = "msg"
       /\ LET e == Trace[l]
              c == e.c
              st2 == SetOf(e.store) IN
          /\ Report("StoreRule", StoreRuleP(store, st2, e.m, c \in proved))
          \* a proof or key material is only ever handed out for a right proof
          /\ Report("ProofOnlyForRightProof", (e.m.t = "Verify" /\ ~(e.m.A = "good" /\ e.m.proof = "right")) => ~e.proof)
          /\ store' = st2
          /\ proved' = IF AcceptedStart(e) THEN proved \ {c}
                       ELSE IF AcceptedProof(e) THEN proved \cup {c} ELSE proved
          /\ l' = l + 1
Next == Reset \/ Msg
Accepted == TLCGet("stats").diameter = Len(Trace) + 1
=======================================================================
