---------------------------- MODULE StorageMC ----------------------------
EXTENDS Storage
VLenDef == [v \in {"long", "mid", "short", "empty"} |-> IF v = "long" THEN 4096 ELSE IF v = "mid" THEN 40 ELSE IF v = "short" THEN 5 ELSE 0]
=======================================================================
