---------------------------- MODULE CharacteristicMC ----------------------------
EXTENDS Characteristic
BoundsDef == {<<0, 1>>, <<0 - 2, 3>>}
PermSetsDef == SUBSET {"pr", "pw", "ev"}
=======================================================================
