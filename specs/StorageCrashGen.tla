---------------------------- MODULE StorageCrashGen ----------------------------
EXTENDS StorageCrash, Json
Tok(n) == IF n = 0 THEN "empty" ELSE IF n = 5 THEN "short" ELSE IF n = 40 THEN "mid" ELSE "long"
EmitInit == pc = 1 /\ ~crashed /\ phase = "first" => PrintT(<<"BEH", ToJson(<<[old |-> IF old.absent THEN "absent" ELSE Tok(old.len), new |-> Tok(new)]>>)>>)
OnlyInit == pc = 1 /\ ~crashed /\ phase = "first"
=======================================================================
