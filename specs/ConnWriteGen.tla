---------------------------- MODULE ConnWriteGen ----------------------------
EXTENDS ConnWriteMC, Json
VARIABLES hist, bad
GInit == Init /\ hist = <<>> /\ bad = FALSE
\* the harness controls entering EncryptedWrite and the socket write; sealing runs on its own in between
GNext == /\ Next
         /\ hist' = IF act'[1] \in {"Begin", "SockWrite"} THEN Append(hist, [a |-> act'[1], w |-> act'[2]]) ELSE hist
         /\ bad' = (bad \/ ~InOrder' \/ ~Contiguous')
AllDone == \A w \in Writer : pc[w] = "done"
\* sealing is not interleaved by the harness: keep only behaviours where a writer seals in one go
Serial == \A w \in Writer : pc[w] \in {"load", "store"} => \A v \in Writer \ {w} : pc[v] \notin {"load", "store"}
EmitDone == AllDone => PrintT(<<"BEH", ToJson(hist)>>)
NoAttack == IF bad THEN ~PrintT(<<"BEH", ToJson(hist)>>) ELSE TRUE
=======================================================================
