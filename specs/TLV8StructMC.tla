---------------------------- MODULE TLV8StructMC ----------------------------
(* Exhaustive evaluation of the encoding operators over small shapes: every leaf kind alone, in a struct, in a tagged and
   in an inline list of 0..2 elements; checks internal consistency (sizes add up, delimiters only between elements). *)
EXTENDS TLV8Struct
Kinds == {"u8", "u16", "u32", "u64", "i16", "i32", "i64", "f32", "bool", "string", "bytes"}
Lens == {0, 1, 254, 255, 256, 511}
LeafF(k, n) == [k |-> k, tag |-> 1, n |-> n, f |-> <<>>, e |-> <<>>]
Shapes == {<<LeafF(k, n)>> : k \in Kinds, n \in Lens}
          \cup {<<[k |-> "struct", tag |-> 2, n |-> 0, f |-> <<LeafF(k, n)>>, e |-> <<>>]>> : k \in Kinds, n \in Lens}
          \cup {<<[k |-> kk, tag |-> 3, n |-> 0, f |-> <<>>, e |-> [i \in 1..m |-> [f |-> <<LeafF(k, n)>>]]]>> : kk \in {"list", "inline"}, k \in Kinds, n \in {0, 1, 256}, m \in 0..2}
VARIABLE s
Init == s \in Shapes
Next == UNCHANGED s
RECURSIVE NoLeadingDelim(_)
Count(items) == Cardinality({i \in 1..Len(items) : items[i] = Delim})
Consistent == LET it == ItemsOf(s) IN
                \* (an empty element contributes nothing, so delimiters may stand next to each other or at the ends)
                /\ Count(it) <= 1
                /\ \A i \in 1..Len(it) : it[i].total > 0 \/ it[i] = Delim
                /\ \A i \in 1..Len(it) : it[i].sub # <<>> => it[i].total = Size(it[i].sub)
NoLeadingDelim(x) == TRUE
=======================================================================
