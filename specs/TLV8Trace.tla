---------------------------- MODULE TLV8Trace ----------------------------
(* Monitor for C16 with the real fragment size.
   set    one SetBytes(tag, value of length len) on a real container: frags = lengths of the items it appended (as parsed by
          the reference reader), refval = the reference parser reassembles exactly the value, roundtrip = hc's own reparse
          returns the same bytes for every tag
   parse  hc's parser on an arbitrary byte string: ok, and per tag the bytes it returns *)
EXTENDS Naturals, Sequences, FiniteSets, TLC, Json, IOUtils
VARIABLES l
MaxFrag == 255
Trace == ndJsonDeserialize(IOEnv.TRACE)
Report(rule, ok) == IF ok THEN TRUE ELSE PrintT(<<"VIOL", rule, l>>)
RECURSIVE Sum(_)
Sum(s) == IF s = <<>> THEN 0 ELSE Head(s) + Sum(Tail(s))
\* all fragments but the last are full; the last one may be followed by an empty terminator
WellFragmented(fr, n) ==
  /\ Sum(fr) = n
  /\ Len(fr) >= 1                         \* also an empty value is an item (of length 0)
  /\ \A k \in 1..Len(fr) : fr[k] <= MaxFrag
  /\ \A k \in 1..Len(fr) : (k < Len(fr) /\ ~(k = Len(fr) - 1 /\ fr[Len(fr)] = 0)) => fr[k] = MaxFrag
RECURSIVE ParseFrom(_, _, _)
ParseFrom(b, i, acc) ==
  IF i > Len(b) THEN [ok |-> TRUE, items |-> acc]
  ELSE IF i + 1 > Len(b) THEN [ok |-> FALSE, items |-> <<>>]
  ELSE LET n == b[i + 1] IN
       IF i + 1 + n > Len(b) THEN [ok |-> FALSE, items |-> <<>>]
       ELSE ParseFrom(b, i + 2 + n, Append(acc, [tag |-> b[i], val |-> SubSeq(b, i + 2, i + 1 + n)]))
Parse(b) == ParseFrom(b, 1, <<>>)
RECURSIVE Get(_, _)
Get(its, tag) == IF its = <<>> THEN <<>> ELSE (IF Head(its).tag = tag THEN Head(its).val ELSE <<>>) \o Get(Tail(its), tag)
Init == l = 1
Next ==
  /\ l <= Len(Trace)
  /\ LET e == Trace[l] IN
     CASE e.ev = "set" -> /\ Report("WellFragmented", WellFragmented(e.frags, e.len))
                          /\ Report("RoundTrip", e.roundtrip /\ e.refval)
       [] e.ev = "parse" -> LET p == Parse(e.in) IN
                          /\ Report("ParseOutcome", e.panic = FALSE /\ e.ok = p.ok)
                          /\ Report("NoInventedBytes", e.ok => \A k \in 1..Len(e.tags) : e.vals[k] = Get(p.items, e.tags[k]))
                          \* the other accessors agree: the value as a string, its first byte (0 when the value is empty or absent)
                          /\ Report("NoInventedBytes", (e.ok /\ ~e.panic) => \A k \in 1..Len(e.tags) :
                                       LET v == Get(p.items, e.tags[k]) IN e.strs[k] = v /\ e.firsts[k] = (IF v = <<>> THEN 0 ELSE v[1]))
       [] OTHER -> TRUE
  /\ l' = l + 1
Accepted == TLCGet("stats").diameter = Len(Trace) + 1
=======================================================================
