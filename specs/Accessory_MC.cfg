SPECIFICATION Spec
CONSTANTS
  Conn = {"k1", "k2", "k3"}
  Ctrl = {"a", "b"}
  Weak = {"sessions_of_removed_pairing_closed"}
INVARIANT Discoverable
PROPERTIES VerifiedMeansStoredOnce GatedOps EventsToSubscribedOthers RestartKeepsPairings
VIEW View
CHECK_DEADLOCK FALSE
