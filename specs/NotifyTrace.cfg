INIT Init
NEXT Next
CONSTANT Evented = {"x", "y"}
POSTCONDITION Accepted
CHECK_DEADLOCK FALSE
