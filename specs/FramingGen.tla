---------------------------- MODULE FramingGen ----------------------------
EXTENDS Framing, Json
EmitInit == k = 0 => PrintT(<<"BEH", ToJson(msgs)>>)
OnlyInit == k = 0
\* the oracle of the exhaustive length sweep: frame lengths for every payload length 0..MaxTable
MaxTable == 4097
Table == [i \in 1..(MaxTable + 1) |-> FramesOf(i - 1)]
EmitTable == k = 0 => PrintT(<<"TABLE", ToJson(Table)>>)
NoAttack == IF ~(FrameSize /\ Counters /\ Complete /\ OnlyLastShort) THEN ~PrintT(<<"BEH", ToJson(msgs)>>) ELSE TRUE
=======================================================================
