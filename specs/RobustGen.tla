---------------------------- MODULE RobustGen ----------------------------
EXTENDS Robust, Json
EmitInit == phase = "send" => PrintT(<<"BEH", ToJson(<<sc>>)>>)
OnlyInit == phase = "send"
NoAttack == IF ~(Answered /\ Recovers) THEN ~PrintT(<<"BEH", ToJson(<<sc>>)>>) ELSE TRUE
=======================================================================
