---------------------------- MODULE TLV8StructTrace ----------------------------
(* Monitor for C17.  marshal lines: tree = the typed value tree (by reflection on the Go value, independent of the tlv8
   package), items = the structure of the bytes hc produced as parsed by the reference TLV8 reader along the type,
   frags = fragment lengths of every top-level item, digitsok = hc's bytes equal the independent reference encoder's,
   roundtrip = Unmarshal(Marshal(v)) equals v.   decode lines: Unmarshal of arbitrary bytes: panic or not. *)
EXTENDS TLV8Struct, Json, IOUtils
VARIABLES l
Trace == ndJsonDeserialize(IOEnv.TRACE)
Report(rule, ok) == IF ok THEN TRUE ELSE PrintT(<<"VIOL", rule, l>>)
Init == l = 1
Next ==
  /\ l <= Len(Trace)
  /\ LET e == Trace[l] IN
     CASE e.ev = "marshal" -> /\ Report("NoPanic", ~e.panic)
                              /\ Report("Structure", e.parsed /\ e.items = ItemsOf(e.tree))
                              /\ Report("Structure", \A k \in 1..Len(e.frags) : WellFragmented(e.frags[k].fr, e.frags[k].total))
                              /\ Report("Digits", e.digitsok)
                              /\ Report("RoundTrip", e.roundtrip)
       [] e.ev = "decode" -> Report("NoPanic", ~e.panic)
       \* a nested struct held by a pointer that is nil: nothing is encoded for it, the rest round-trips
       [] e.ev = "marshal-nilptr" -> Report("NoPanic", ~e.panic) /\ Report("RoundTrip", e.panic \/ e.roundtrip)
       \* lists whose elements are held by pointers: encoded like lists of values, and they come back
       [] e.ev = "marshal-ptrlist" -> Report("NoPanic", ~e.panic) /\ Report("RoundTrip", e.panic \/ (e.roundtrip /\ e.samebytes))
       [] OTHER -> TRUE
  /\ l' = l + 1
Accepted == TLCGet("stats").diameter = Len(Trace) + 1
=======================================================================
