package main

// Family "responses": words of Responses.tla (Send / Receive of several verified controllers whose responses are in
// flight at the same time) on a real ip transport with a large attribute database.  A controller that has sent a request
// for a big response and does not read yet keeps the server blocked in the middle of that response (small receive buffer);
// the other controllers are served meanwhile; then it reads to the end and the whole response is compared with what the
// application had set.

import (
	gocontext "context"
	"encoding/json"
	"fmt"
	"net"
	"os"
	"runtime"
	"strings"
	"sync"
	"time"

	"github.com/brutella/hc/accessory"

	"github.com/brutella/hc/hap"

	"hcverif/ref"
)

func init() { families["responses"] = responsesFamily }

// Both kinds of response have to be larger than what the kernel lets a sender get rid of while the receiver does not read
// (the send buffer of a loopback connection grows to tcp_wmem[2], 4 MB here): 80 accessories x 2 strings x 32 KB = 5 MB.
const rsFill = 32 * 1024
const rsAccessories = 80

type rsStep struct {
	A string `json:"a"`
	C string `json:"c"`
	K string `json:"k"`
}

type rsWorld struct {
	tr    *Transport
	dir   string
	names map[uint64]string           // accessory id -> the name the application set
	nameI map[uint64]uint64           // accessory id -> instance id of its Name characteristic
	strs  map[string]string           // "aid.iid" -> value of every string characteristic of the accessory information services
	order []string                    // their ids in a fixed order
	lamp  *accessory.ColoredLightbulb // every controller subscribes to its On characteristic
	lampA uint64
	ids   map[string]ref.Identity
	mu    sync.Mutex
	// the application sets the serial number of the bridge (the first accessory of every /accessories body) to a new
	// value of another length before every request: responses of different requests differ from their first KB on
	bridge *accessory.Bridge
	stampI uint64
	stamps []string
	smu    sync.Mutex // guards stamps only: never held while anything of the accessory is called
}

func newRSWorld(seed int64, k int, n int) (*rsWorld, error) {
	w := &rsWorld{names: map[uint64]string{}, nameI: map[uint64]uint64{}, strs: map[string]string{}, ids: map[string]ref.Identity{}, dir: mkTempDir("hcv-responses")}
	rng := rngFor(seed, 23000+k)
	bridge := accessory.NewBridge(accessory.Info{Name: fmt.Sprintf("Bridge-%d", k)})
	accs := []*accessory.Accessory{bridge.Accessory}
	w.bridge = bridge
	for i := 0; i < n; i++ {
		// names with characters a JSON encoder has to escape, all different
		name := fmt.Sprintf("Lamp %03d of %d \"q\" <&> é\U0001F4A1 %08x", i, k, rng.Uint32())
		lb := accessory.NewColoredLightbulb(accessory.Info{Name: name, SerialNumber: fmt.Sprintf("SN-%06d-%d", i, k), Manufacturer: fmt.Sprintf("maker-%d-%d-", i, k) + strings.Repeat("m", rsFill), Model: fmt.Sprintf("model-%d-%d-", i, k) + strings.Repeat("M", rsFill)})
		accs = append(accs, lb.Accessory)
		if i == 0 {
			w.lamp = lb
		}
	}
	tr, err := startTransport(w.dir, "00102003", false, accs[0], accs[1:]...)
	if err != nil {
		return nil, err
	}
	w.tr = tr
	w.lampA = w.lamp.Accessory.ID
	w.stampI = bridge.Info.SerialNumber.ID
	w.stamps = []string{bridge.Info.SerialNumber.GetValue()}
	for _, a := range accs {
		w.names[a.ID] = a.Info.Name.GetValue()
		w.nameI[a.ID] = a.Info.Name.ID
		for _, sc := range a.Info.Service.Characteristics {
			if a == bridge.Accessory && sc == bridge.Info.SerialNumber.Characteristic {
				continue // the stamp changes with every request
			}
			if v, ok := sc.Value.(string); ok && sc.IsReadable() {
				id := fmt.Sprintf("%d.%d", a.ID, sc.ID)
				w.strs[id] = v
				w.order = append(w.order, id)
			}
		}
	}
	for _, c := range []string{"c1", "c2", "c3"} {
		w.ids[c] = ref.NewIdentity("responses-"+c, rndFunc(rng))
		if err := tr.seedPairing(w.ids[c]); err != nil {
			return nil, err
		}
	}
	return w, nil
}

func (w *rsWorld) close() {
	w.tr.Stop()
	os.RemoveAll(w.dir)
}

// checkAccessories: well-formed JSON, every accessory present once, every Name value as the application set it
// stamp sets a new serial number of the bridge and returns its index.
func (w *rsWorld) stamp() int {
	// (not under w.mu: an application goroutine that is stuck in a notification to a controller which does not read - a
	// seeded change may make it so - holds that lock, and the word has to go on to the step in which the controller reads)
	w.smu.Lock()
	n := len(w.stamps)
	v := fmt.Sprintf("stamp-%d-", n) + strings.Repeat("s", (n*7)%23)
	w.stamps = append(w.stamps, v)
	w.smu.Unlock()
	w.bridge.Info.SerialNumber.SetValue(v)
	return n
}

func (w *rsWorld) checkAccessories(body []byte, from int) (bool, string) {
	var doc struct {
		Accessories []struct {
			Aid      uint64 `json:"aid"`
			Services []struct {
				Characteristics []struct {
					Iid   uint64      `json:"iid"`
					Value interface{} `json:"value"`
				} `json:"characteristics"`
			} `json:"services"`
		} `json:"accessories"`
	}
	if err := json.Unmarshal(body, &doc); err != nil {
		return false, "not JSON: " + err.Error()
	}
	if len(doc.Accessories) != len(w.names) {
		return false, fmt.Sprintf("%d accessories, want %d", len(doc.Accessories), len(w.names))
	}
	seen := map[uint64]bool{}
	for _, a := range doc.Accessories {
		if seen[a.Aid] {
			return false, fmt.Sprintf("aid %d twice", a.Aid)
		}
		seen[a.Aid] = true
		found := false
		for _, s := range a.Services {
			for _, c := range s.Characteristics {
				if a.Aid == w.bridge.Accessory.ID && c.Iid == w.stampI {
					// the serial number is one the application had set when the request was sent or has set since
					v, _ := c.Value.(string)
					w.smu.Lock()
					okStamp := false
					for _, st := range w.stamps[from:] {
						okStamp = okStamp || st == v
					}
					w.smu.Unlock()
					if !okStamp {
						return false, fmt.Sprintf("serial number of the bridge %q: not a value the application set since the request", v)
					}
				}
				if c.Iid == w.nameI[a.Aid] {
					found = true
					if v, _ := c.Value.(string); v != w.names[a.Aid] {
						return false, fmt.Sprintf("aid %d: name %q, want %q", a.Aid, v, w.names[a.Aid])
					}
				}
			}
		}
		if !found {
			return false, fmt.Sprintf("aid %d: no name", a.Aid)
		}
	}
	return true, ""
}

// the other kind of response: every string of every accessory information service (tens of KB, laid out differently from
// /accessories), so that it is longer than what a blocked /accessories response has already got rid of
func (w *rsWorld) charsPath() string {
	return "/characteristics?id=" + strings.Join(w.order, ",")
}

func (w *rsWorld) checkChars(body []byte) (bool, string) {
	var doc struct {
		Characteristics []struct {
			Aid   uint64      `json:"aid"`
			Iid   uint64      `json:"iid"`
			Value interface{} `json:"value"`
		} `json:"characteristics"`
	}
	if err := json.Unmarshal(body, &doc); err != nil {
		return false, "not JSON: " + err.Error()
	}
	if len(doc.Characteristics) != len(w.order) {
		return false, fmt.Sprintf("%d entries, want %d", len(doc.Characteristics), len(w.order))
	}
	for i, c := range doc.Characteristics {
		id := fmt.Sprintf("%d.%d", c.Aid, c.Iid)
		if v, _ := c.Value.(string); id != w.order[i] || v != w.strs[id] {
			return false, fmt.Sprintf("entry %d: %s = %.40q, want %s = %.40q", i, id, v, w.order[i], w.strs[w.order[i]])
		}
	}
	return true, ""
}

func (w *rsWorld) runWord(b Beh, seed int64) ([]J, error) {
	rng := rngFor(seed, 24000000+b.ID)
	conns := map[string]*ref.Conn{}
	kinds := map[string]string{}
	from := map[string]int{}
	defer func() {
		for _, c := range conns {
			c.Close()
		}
	}()
	conn := func(name string) (*ref.Conn, error) {
		if c, ok := conns[name]; ok {
			return c, nil
		}
		// a slow reader: the receive window is small from the handshake on, the server cannot push a big response into the socket
		var c *ref.Conn
		var err error
		for try := 0; try < 6; try++ {
			if c, err = ref.DialSmallWindow(w.tr.Addr, 4096); err != nil {
				return nil, err
			}
			vc := &ref.VerifyClient{ID: w.ids[name], Rnd: rndFunc(rng)}
			if err = vc.Run(c, w.tr.AccessoryLTPK()); err == nil && w.tr.WaitEncrypted(c.C.LocalAddr().String()) {
				break
			}
			c.Close()
			if err == nil {
				err = fmt.Errorf("session not promoted")
			}
		}
		if err != nil {
			return nil, err
		}
		c.Timeout = 20 * time.Second
		// every controller wants to hear about the first lamp
		sub, _ := json.Marshal(J{"characteristics": []J{{"aid": w.lampA, "iid": w.lamp.Lightbulb.On.ID, "ev": true}}})
		if m, err := c.Do("PUT", "/characteristics", ref.CTJSON, sub); err != nil || m.Status >= 300 {
			c.Close()
			return nil, fmt.Errorf("subscription refused")
		}
		conns[name] = c
		return c, nil
	}
	var apps sync.WaitGroup
	defer apps.Wait()
	lines := []J{{"ev": "reset", "case": b.ID}}
	for i, raw := range b.Steps {
		var s rsStep
		if err := json.Unmarshal(raw, &s); err != nil {
			return nil, err
		}
		o := J{"ev": "step", "case": b.ID, "i": i, "a": s.A, "c": s.C, "k": s.K, "ok": true, "n": 0, "why": "", "starved": false}
		if s.A == "Event" {
			// the application changes the value all controllers are subscribed to; it does not wait for slow receivers
			apps.Add(1)
			go func() {
				defer apps.Done()
				w.mu.Lock()
				defer w.mu.Unlock()
				w.lamp.Lightbulb.On.SetValue(!w.lamp.Lightbulb.On.GetValue())
			}()
			time.Sleep(2 * time.Millisecond)
			lines = append(lines, o)
			continue
		}
		if s.A == "KeepAlive" {
			// the accessory's keep-alive goes to every connection, for a few periods
			apps.Add(1)
			go func() {
				defer apps.Done()
				ctx, cancel := gocontext.WithTimeout(gocontext.Background(), 4*time.Millisecond)
				defer cancel()
				hap.NewKeepAlive(time.Millisecond, w.tr.Ctx).Start(ctx)
			}()
			time.Sleep(5 * time.Millisecond)
			lines = append(lines, o)
			continue
		}
		c, err := conn(s.C)
		if err != nil {
			return nil, err
		}
		switch s.A {
		case "Send":
			path := "/accessories"
			if s.K == "small" {
				path = w.charsPath()
			}
			kinds[s.C] = s.K
			from[s.C] = w.stamp()
			if err := c.WriteRaw(ref.BuildRequest("GET", path, "", nil)); err != nil {
				o["ok"], o["why"] = false, "send: "+err.Error()
			}
			// let the server run into the full socket (or finish) before the next step of the word
			time.Sleep(time.Duration(3+rng.Intn(5)) * time.Millisecond)
		case "Receive":
			if tc, ok := c.C.(*net.TCPConn); ok {
				tc.SetReadBuffer(1 << 20) // now the controller reads at full speed
			}
			var m *ref.Msg
			for {
				m, err = c.ReadMsg()
				if err != nil || !m.IsEvent() {
					break
				}
			}
			switch {
			case err != nil:
				o["ok"], o["why"] = false, "receive: "+err.Error()
				if ne, isNet := err.(net.Error); isNet && ne.Timeout() && m == nil {
					o["starved"] = true // nothing (more) arrived in 20 s: the response waits for somebody else
				}
				c.Close()
				delete(conns, s.C)
			case m.Status != 200:
				o["ok"], o["why"] = false, fmt.Sprintf("status %d", m.Status)
			default:
				o["n"] = len(m.Body)
				if kinds[s.C] == "small" {
					o["ok"], o["why"] = w.checkChars(m.Body)
				} else {
					o["ok"], o["why"] = w.checkAccessories(m.Body, from[s.C])
				}
			}
		default:
			return nil, fmt.Errorf("unknown action %q", s.A)
		}
		lines = append(lines, o)
	}
	return lines, nil
}

func responsesFamily(a *Args) error {
	behs, err := readBehs(a.Beh)
	if err != nil {
		return err
	}
	tr, err := newTracer(a.Trace)
	if err != nil {
		return err
	}
	nworlds := 6
	if len(behs) < nworlds {
		nworlds = len(behs)
	}
	worlds := make([]*rsWorld, nworlds)
	for k := range worlds {
		if worlds[k], err = newRSWorld(a.Seed, k, rsAccessories); err != nil {
			return err
		}
		defer worlds[k].close()
	}
	var mu sync.Mutex
	var firstErr error
	// Two passes: on one processor (an accessory on a small board: whatever a parked handler left in per-processor state is
	// found by the next handler) and on all of them (true parallelism).  The words of one world run one after the other,
	// the worlds side by side (they share the process: pools, caches).
	for pass, procs := range []int{1, runtime.NumCPU()} {
		old := runtime.GOMAXPROCS(procs)
		parallel(nworlds, nworlds, func(k int) {
			for i := k; i < len(behs); i += nworlds {
				lines, err := worlds[k].runWord(behs[i], a.Seed+int64(pass))
				if err != nil {
					mu.Lock()
					if firstErr == nil {
						firstErr = fmt.Errorf("case %d: %v", behs[i].ID, err)
					}
					mu.Unlock()
					return
				}
				for _, l := range lines {
					l["procs"] = procs
				}
				tr.Block(lines)
			}
		})
		runtime.GOMAXPROCS(old)
		if firstErr != nil {
			return firstErr
		}
	}
	fmt.Printf("responses: %d words of concurrent requests replayed on %d transports (attribute databases of 81 accessories, responses of about 5 MB), %d trace lines\n", len(behs), nworlds, tr.n)
	return tr.Close()
}
