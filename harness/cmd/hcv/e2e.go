package main

// Family "e2e": behaviours of the top-level composition Accessory.tla (pair through real pair-setup, verify, gated
// operations, events, pairing removal, stop / restart) replayed on real ip transports on one storage directory.

import (
	"encoding/json"
	"fmt"
	"os"
	"path/filepath"
	"sort"
	"strconv"
	"sync"
	"time"

	"github.com/brutella/hc/accessory"
	"github.com/brutella/hc/util"

	"hcverif/ref"
)

func init() { families["e2e"] = e2eFamily }

type e2Step struct {
	A string      `json:"a"`
	K string      `json:"conn"`
	X interface{} `json:"x"`
	K2 string     `json:"k2"`
}

type e2Conn struct {
	c        *ref.Conn
	verified bool
	local    string
}

func runE2E(b Beh, seed int64) ([]J, error) {
	rng := rngFor(seed, 21000000+b.ID)
	dir := mkTempDir("hcv-e2e")
	defer os.RemoveAll(dir)
	ids := map[string]ref.Identity{}
	for _, c := range []string{"a", "b"} {
		ids[c] = ref.NewIdentity("e2e-"+c, rndFunc(rng))
	}
	var tr *Transport
	var sw *accessory.Switch
	start := func() error {
		sw = accessory.NewSwitch(accessory.Info{Name: "E2E"})
		t, err := startTransport(dir, "00102003", false, sw.Accessory)
		tr = t
		return err
	}
	if err := start(); err != nil {
		return nil, err
	}
	defer func() {
		if tr != nil {
			tr.Stop()
		}
	}()
	conns := map[string]*e2Conn{}
	closeAll := func() {
		for k, cs := range conns {
			cs.c.Close()
			delete(conns, k)
		}
	}
	defer closeAll()
	conn := func(k string) (*e2Conn, error) {
		if cs, ok := conns[k]; ok {
			return cs, nil
		}
		c, err := ref.Dial(tr.Addr)
		if err != nil {
			return nil, err
		}
		c.Timeout = 6 * time.Second
		cs := &e2Conn{c: c, local: c.C.LocalAddr().String()}
		conns[k] = cs
		return cs, nil
	}
	observe := func(o J) {
		txt := tr.T.VerifTXT()
		sf, _ := strconv.Atoi(txt["sf"])
		pair := []string{}
		for _, e := range tr.Entities() {
			if e.Name != tr.AccessoryID() {
				pair = append(pair, e.Name)
			}
		}
		sort.Strings(pair)
		v := 0
		if sw.Switch.On.GetValue() {
			v = 1
		}
		o["sf"], o["paired"], o["val"] = sf, pair, v
	}
	fence := func() []string {
		got := []string{}
		for _, k := range sortedE2(conns) {
			cs := conns[k]
			if !cs.verified {
				// an unverified connection is fenced with an unprotected request; EVENTs would arrive in plaintext
				cs.c.Sess = nil
				if m, err := cs.c.Do("POST", "/identify", "", []byte{}); err != nil || m == nil {
					continue
				}
			} else if _, err := cs.c.Do("GET", fmt.Sprintf("/characteristics?id=1.%d", sw.Info.Name.ID), "", nil); err != nil {
				continue
			}
			if len(cs.c.TakeEvents()) > 0 {
				got = append(got, k)
			}
		}
		return got
	}
	lines := []J{{"ev": "reset", "case": b.ID}}
	for i, raw := range b.Steps {
		var s e2Step
		if err := json.Unmarshal(raw, &s); err != nil {
			return nil, err
		}
		o := J{"ev": "step", "case": b.ID, "i": i, "a": s.A, "k": s.K, "x": fmt.Sprint(s.X), "res": "none", "running": tr != nil, "skipped": false, "got": []string{}, "sf": 0, "paired": []string{}, "val": 0, "k2": "none", "vres": "none", "realised": false}
		if tr == nil && s.A != "Start" {
			o["skipped"] = true
			lines = append(lines, o)
			continue
		}
		switch s.A {
		case "Stop":
			closeAll()
			tr.Stop()
			tr = nil
		case "Start":
			if tr != nil {
				o["skipped"] = true
				break
			}
			if err := start(); err != nil {
				return nil, err
			}
		case "Local":
			v := fmt.Sprint(s.X) == "1"
			sw.Switch.On.SetValue(v)
			o["res"] = "ok"
		case "Pair":
			cs, err := conn(s.K)
			if err != nil {
				return nil, err
			}
			if cs.verified {
				o["skipped"] = true
				break
			}
			// an unlucky salt / B draw needs a fresh connection (the exchange state is per connection); k is unverified
			// and therefore carries no state of the model, so the fresh connection simply takes its place
			ok := false
			for try := 0; try < 8 && !ok; try++ {
				sc := &ref.SetupClient{Pin: "001-02-003", ID: ids[fmt.Sprint(s.X)], Rnd: rndFunc(rng)}
				err := sc.Run(cs.c)
				if err == nil {
					ok = true
				} else if err == ref.ErrRedraw || err == ref.ErrRedrawB {
					cs.c.Close()
					delete(conns, s.K)
					if cs, err = conn(s.K); err != nil {
						return nil, err
					}
				} else {
					o["err"] = err.Error()
					break
				}
			}
			o["res"] = map[bool]string{true: "ok", false: "refused"}[ok]
		case "Verify":
			cs, err := conn(s.K)
			if err != nil {
				return nil, err
			}
			// (on a verified connection: pair-verify inside the session; a refusal leaves the session as it is)
			vc := &ref.VerifyClient{ID: ids[fmt.Sprint(s.X)], Rnd: rndFunc(rng)}
			err = vc.Run(cs.c, tr.AccessoryLTPK())
			if err == nil {
				cs.verified = true
				tr.WaitEncrypted(cs.local)
				o["res"] = "ok"
			} else {
				o["res"] = "refused"
				o["err"] = err.Error()
			}
		case "Read", "Sub", "Unsub", "Write", "Remove", "Add":
			cs, err := conn(s.K)
			if err != nil {
				return nil, err
			}
			var m *ref.Msg
			switch s.A {
			case "Read":
				m, err = cs.c.Do("GET", "/accessories", "", nil)
			case "Sub", "Unsub":
				body, _ := json.Marshal(J{"characteristics": []J{{"aid": 1, "iid": sw.Switch.On.ID, "ev": s.A == "Sub"}}})
				m, err = cs.c.Do("PUT", "/characteristics", ref.CTJSON, body)
			case "Write":
				body, _ := json.Marshal(J{"characteristics": []J{{"aid": 1, "iid": sw.Switch.On.ID, "value": fmt.Sprint(s.X) == "1"}}})
				m, err = cs.c.Do("PUT", "/characteristics", ref.CTJSON, body)
			case "Add":
				var t ref.TLV
				id := ids[fmt.Sprint(s.X)]
				t.AddByte(ref.TagState, 1)
				t.AddByte(ref.TagMethod, 3)
				t.Add(ref.TagIdentifier, []byte(id.Name))
				t.Add(ref.TagPublicKey, []byte(id.Pub))
				t.AddByte(ref.TagPermission, 1)
				cs.c.Timeout = 8 * time.Second
				m, err = cs.c.Do("POST", "/pairings", ref.CTTLV, t.Encode())
			case "Remove":
				var t ref.TLV
				t.AddByte(ref.TagState, 1)
				t.AddByte(ref.TagMethod, 4)
				t.Add(ref.TagIdentifier, []byte(ids[fmt.Sprint(s.X)].Name))
				cs.c.Timeout = 8 * time.Second
				m, err = cs.c.Do("POST", "/pairings", ref.CTTLV, t.Encode())
			}
			switch {
			case err != nil:
				o["res"] = "dropped"
				cs.c.Close()
				delete(conns, s.K)
			case m.Status >= 300:
				o["res"] = "refused"
			default:
				o["res"] = "ok"
			}
		case "RemoveDuring":
			// the pairing of X is removed on K while K2 runs pair-verify as X: the removal is parked at the beginning of the
			// storage operation, the verification runs, the removal goes on
			cs, err := conn(s.K)
			if err != nil {
				return nil, err
			}
			cs2, err := conn(s.K2)
			if err != nil {
				return nil, err
			}
			o["k2"] = s.K2
			gate := armStorageGate(tr.Dir)
			type res struct {
				m   *ref.Msg
				err error
			}
			rc := make(chan res, 1)
			go func() {
				var t ref.TLV
				t.AddByte(ref.TagState, 1)
				t.AddByte(ref.TagMethod, 4)
				t.Add(ref.TagIdentifier, []byte(ids[fmt.Sprint(s.X)].Name))
				cs.c.Timeout = 12 * time.Second
				m, err := cs.c.Do("POST", "/pairings", ref.CTTLV, t.Encode())
				rc <- res{m, err}
			}()
			var early *res
			select {
			case <-gate.arrived:
				o["realised"] = true
			case r := <-rc:
				early = &r // refused before it reached the storage (or nothing to remove)
			case <-time.After(3 * time.Second):
			}
			vc := &ref.VerifyClient{ID: ids[fmt.Sprint(s.X)], Rnd: rndFunc(rng)}
			if verr := vc.Run(cs2.c, tr.AccessoryLTPK()); verr == nil {
				cs2.verified = true
				tr.WaitEncrypted(cs2.local)
				o["vres"] = "ok"
			} else {
				o["vres"] = "refused"
			}
			gate.open()
			var r res
			if early != nil {
				r = *early
			} else {
				r = <-rc
			}
			switch {
			case r.err != nil:
				o["res"] = "dropped"
				cs.c.Close()
				delete(conns, s.K)
			case r.m.Status >= 300:
				o["res"] = "refused"
			default:
				o["res"] = "ok"
			}
		case "Close":
			if cs, ok := conns[s.K]; ok {
				cs.c.Close()
				delete(conns, s.K)
				for n := 0; n < 500; n++ {
					if sessionOf(tr.Ctx, cs.local) == nil {
						break
					}
					time.Sleep(time.Millisecond)
				}
			}
			o["res"] = "ok"
		default:
			return nil, fmt.Errorf("unknown action %q", s.A)
		}
		if tr != nil {
			o["got"] = fence()
			observe(o)
			o["running"] = true
		} else {
			o["running"] = false
		}
		lines = append(lines, o)
	}
	return lines, nil
}

func sortedE2(m map[string]*e2Conn) []string {
	out := make([]string, 0, len(m))
	for k := range m {
		out = append(out, k)
	}
	sort.Strings(out)
	return out
}

func e2eFamily(a *Args) error {
	behs, err := readBehs(a.Beh)
	if err != nil {
		return err
	}
	tr, err := newTracer(a.Trace)
	if err != nil {
		return err
	}
	var mu sync.Mutex
	var firstErr error
	parallel(len(behs), 24, func(i int) {
		lines, err := runE2E(behs[i], a.Seed)
		if err != nil {
			mu.Lock()
			if firstErr == nil {
				firstErr = fmt.Errorf("case %d: %v", behs[i].ID, err)
			}
			mu.Unlock()
			return
		}
		tr.Block(lines)
	})
	if firstErr != nil {
		return firstErr
	}
	fmt.Printf("e2e: %d end-to-end histories replayed on real transports, %d trace lines\n", len(behs), tr.n)
	return tr.Close()
}

// storage gates: a storage operation of the accessory whose directory has a gate armed parks at its beginning until the
// gate is opened (hook util.VerifStoragePoint; at most 10 s).
type storageGate struct {
	dir     string
	arrived chan struct{}
	release chan struct{}
	once    sync.Once
}

var (
	sgMu    sync.Mutex
	sgGates = map[string]*storageGate{}
)

func (g *storageGate) open() {
	g.once.Do(func() {
		sgMu.Lock()
		delete(sgGates, g.dir)
		sgMu.Unlock()
		close(g.release)
	})
}

func armStorageGate(dir string) *storageGate {
	d, _ := filepath.Abs(dir)
	g := &storageGate{dir: d, arrived: make(chan struct{}, 1), release: make(chan struct{})}
	sgMu.Lock()
	sgGates[d] = g
	sgMu.Unlock()
	return g
}

func init() {
	util.VerifStoragePoint = func(name, dir string) {
		if name != "delete:begin" {
			return
		}
		d, _ := filepath.Abs(dir)
		sgMu.Lock()
		g := sgGates[d]
		sgMu.Unlock()
		if g == nil {
			return
		}
		select {
		case g.arrived <- struct{}{}:
		default:
			return // a second operation while the gate is taken passes
		}
		select {
		case <-g.release:
		case <-time.After(10 * time.Second):
		}
	}
}
