package main

// Family "charstack": every characteristic constructor of the library served by hc's real HTTP server to a pair-verified
// reference controller over an encrypted TCP connection (C09 fidelity and response shape, C11 permissions over HTTP).

import (
	"encoding/base64"
	"encoding/json"
	"fmt"
	"math"
	"math/rand"
	"os"
	"sort"
	"strings"
	"sync"

	"github.com/brutella/hc/accessory"
	"github.com/brutella/hc/characteristic"
	"github.com/brutella/hc/service"

	"hcverif/ref"
)

func init() { families["charstack"] = charStackFamily }

type csStep struct {
	A   string   `json:"a"`
	Tok string   `json:"tok"`
	Ids []string `json:"ids"`
}

type csCell struct {
	name  string
	obj   interface{}
	c     *characteristic.Characteristic
	aid   uint64
	toks  map[string]interface{} // token -> concrete value (Go value as the application sets it)
	cbTok string                 // token received by the remote-update callback since the last reset
	cbVal interface{}
	cbN   int
	// panicNext: the application's callback panics the next time it is called (once)
	panicNext bool
}

type csWorld struct {
	tr    *Transport
	id    ref.Identity
	conn  *ref.Conn
	cells []*csCell
	wo    *csCell // a write-only cell for list reads
	rng   *rand.Rand
	seed  int64
}

var trickyStrings = []string{"plain", "quo\"te\\back", "<script>&amp;</script>", "tab\tnew\nline", "   sep", "\U0001F600 non-BMP \U00010348", "é ü ß 世界", "", " lead and trail ", "{\"json\":[1,2]}"}

// tokens: three distinct valid values of the cell's format (bool has only two: v2 = v0)
func csTokens(c *characteristic.Characteristic, rng *rand.Rand, big bool) map[string]interface{} {
	lo, hi, _ := bounds(c)
	switch fmtClass(c.Format) {
	case "bool":
		cur, _ := c.Value.(bool)
		return map[string]interface{}{"v0": cur, "v1": !cur, "v2": cur}
	case "int":
		a, b, d := int(lo), int(hi), int(lo)+1
		if d > b {
			d = a
		}
		cur, ok := c.Value.(int)
		if !ok {
			cur = a
		}
		m := map[string]interface{}{"v0": cur, "v1": b, "v2": d}
		if b == cur {
			m["v1"] = a
		}
		return m
	case "float":
		step := 0.5
		if s, ok := c.StepValue.(float64); ok && s > 0 {
			step = s
		}
		cur, ok := c.Value.(float64)
		if !ok {
			cur = lo
		}
		v1 := hi
		if v1 == cur {
			v1 = lo
		}
		v2 := lo + step
		if v2 > hi {
			v2 = lo
		}
		return map[string]interface{}{"v0": cur, "v1": v1, "v2": v2}
	default:
		cur, _ := c.Value.(string)
		if c.Format == characteristic.FormatTLV8 || c.Format == characteristic.FormatData {
			n1, n2 := 1+rng.Intn(40), 60+rng.Intn(300)
			if big {
				n2 = 2000 + rng.Intn(3000) // several frames
			}
			b1, b2 := make([]byte, n1), make([]byte, n2)
			rng.Read(b1)
			rng.Read(b2)
			return map[string]interface{}{"v0": cur, "v1": base64.StdEncoding.EncodeToString(b1), "v2": base64.StdEncoding.EncodeToString(b2)}
		}
		i := rng.Intn(len(trickyStrings))
		v1, v2 := trickyStrings[i], trickyStrings[(i+1+rng.Intn(len(trickyStrings)-1))%len(trickyStrings)]
		if v1 == cur {
			v1 = cur + "x"
		}
		if v2 == cur {
			v2 = cur + "y"
		}
		return map[string]interface{}{"v0": cur, "v1": v1, "v2": v2}
	}
}

// equalJSON compares a value decoded from JSON (json.Number / string / bool) with a Go value of the cell's format.
func equalJSON(got interface{}, want interface{}) bool {
	switch w := want.(type) {
	case bool:
		switch g := got.(type) {
		case bool:
			return g == w
		case json.Number: // HAP allows 0 / 1 for bool
			return (g.String() == "1") == w && (g.String() == "0" || g.String() == "1")
		}
	case int:
		if g, ok := got.(json.Number); ok {
			f, err := g.Float64()
			return err == nil && f == float64(w)
		}
	case float64:
		if g, ok := got.(json.Number); ok {
			f, err := g.Float64()
			return err == nil && math.Abs(f-w) <= 1e-9*math.Max(1, math.Abs(w))
		}
	case string:
		g, ok := got.(string)
		return ok && g == w
	}
	return false
}

func equalGo(a, b interface{}) bool {
	switch x := a.(type) {
	case float64:
		y, ok := b.(float64)
		return ok && math.Abs(x-y) <= 1e-9*math.Max(1, math.Abs(x))
	}
	return a == b
}

func (cl *csCell) toksOfJSON(got interface{}) []string {
	out := []string{}
	for _, t := range []string{"v0", "v1", "v2"} {
		if equalJSON(got, cl.toks[t]) {
			out = append(out, t)
		}
	}
	return out
}

func (cl *csCell) toksOfGo(got interface{}) []string {
	out := []string{}
	for _, t := range []string{"v0", "v1", "v2"} {
		if equalGo(got, cl.toks[t]) {
			out = append(out, t)
		}
	}
	return out
}

func newCSWorld(seed int64, k int, extraAccessories int) (*csWorld, error) {
	w := &csWorld{rng: rngFor(seed, 13000+k), seed: seed}
	dir := mkTempDir("hcv-charstack")
	bridge := accessory.NewBridge(accessory.Info{Name: "Everything"})
	var accs []*accessory.Accessory
	accs = append(accs, bridge.Accessory)
	var cur *accessory.Accessory
	var svc *service.Service
	for i, e := range catChars {
		obj, pan := safeMake(e)
		if pan != "" || obj == nil {
			continue // C15's business
		}
		c := baseChar(obj)
		if c == nil {
			continue
		}
		if i%40 == 0 {
			cur = accessory.New(accessory.Info{Name: fmt.Sprintf("Part%d", i/40)}, accessory.TypeOther)
			accs = append(accs, cur)
		}
		if i%10 == 0 {
			svc = service.New(fmt.Sprintf("F%03X", i/10))
			cur.AddService(svc)
		}
		svc.AddCharacteristic(c)
		cl := &csCell{name: e.name, obj: obj, c: c}
		c.OnValueUpdateFromConn(func(conn netConn, ch *characteristic.Characteristic, n, o interface{}) {
			if cl.panicNext {
				cl.panicNext = false
				panic("hcv: the application's remote-update callback panics (PanickyWrite)")
			}
			cl.cbVal, cl.cbN = n, cl.cbN+1
		})
		w.cells = append(w.cells, cl)
	}
	for i := 0; i < extraAccessories; i++ {
		lb := accessory.NewColoredLightbulb(accessory.Info{Name: fmt.Sprintf("Filler %d \"quoted\" <%d>", i, i)})
		accs = append(accs, lb.Accessory)
	}
	// a real ip transport: its per-characteristic callbacks are what turns a value change into EVENT messages
	tr, err := startTransport(dir, "00102003", false, accs[0], accs[1:]...)
	if err != nil {
		return nil, err
	}
	w.tr = tr
	// ids are assigned when the accessories are added to the container
	aidOf := map[*characteristic.Characteristic]uint64{}
	for _, a := range accs {
		for _, s := range a.Services {
			for _, c := range s.Characteristics {
				aidOf[c] = a.ID
			}
		}
	}
	for _, cl := range w.cells {
		cl.aid = aidOf[cl.c]
		cl.toks = csTokens(cl.c, w.rng, k%3 == 0)
		if !has(permSet(cl.c), "pr") && has(permSet(cl.c), "pw") && w.wo == nil {
			w.wo = cl
		}
	}
	id := ref.NewIdentity("charstack-controller", rndFunc(w.rng))
	if err := tr.seedPairing(id); err != nil {
		return nil, err
	}
	c, err := tr.verifiedConn(id, tr.AccessoryLTPK(), w.rng)
	if err != nil {
		return nil, err
	}
	w.conn, w.id = c, id
	return w, nil
}

func (w *csWorld) close() {
	if w.conn != nil {
		w.conn.Close()
	}
	w.tr.Stop()
	os.RemoveAll(w.tr.Dir)
}

type csEntry struct {
	Aid    uint64      `json:"aid"`
	Iid    uint64      `json:"iid"`
	Value  interface{} `json:"value"`
	Status *int        `json:"status"`
}

func decodeEntries(body []byte) ([]csEntry, map[int]bool, error) {
	var r struct {
		Characteristics []json.RawMessage `json:"characteristics"`
	}
	d := json.NewDecoder(strings.NewReader(string(body)))
	d.UseNumber()
	if err := d.Decode(&r); err != nil {
		return nil, nil, err
	}
	var out []csEntry
	hasValue := map[int]bool{}
	for i, raw := range r.Characteristics {
		var e csEntry
		dd := json.NewDecoder(strings.NewReader(string(raw)))
		dd.UseNumber()
		if err := dd.Decode(&e); err != nil {
			return nil, nil, err
		}
		var m map[string]json.RawMessage
		json.Unmarshal(raw, &m)
		_, hasValue[i] = m["value"]
		out = append(out, e)
	}
	return out, hasValue, nil
}

func (w *csWorld) getOne(cl *csCell) (http int, hasValue bool, val interface{}, status int, n int) {
	m, err := w.conn.Do("GET", fmt.Sprintf("/characteristics?id=%d.%d", cl.aid, cl.c.ID), "", nil)
	if err != nil {
		return -1, false, nil, 0, 0
	}
	es, hv, err := decodeEntries(m.Body)
	if err != nil || len(es) == 0 {
		return m.Status, false, nil, 0, len(es)
	}
	st := 0
	if es[0].Status != nil {
		st = *es[0].Status
	}
	return m.Status, hv[0], es[0].Value, st, len(es)
}

// accValue fetches /accessories and finds the characteristic
func (w *csWorld) accValue(cl *csCell) (http int, found, hasValue bool, val interface{}) {
	m, err := w.conn.Do("GET", "/accessories", "", nil)
	if err != nil {
		return -1, false, false, nil
	}
	var doc struct {
		Accessories []struct {
			Aid      uint64 `json:"aid"`
			Services []struct {
				Characteristics []map[string]interface{} `json:"characteristics"`
			} `json:"services"`
		} `json:"accessories"`
	}
	d := json.NewDecoder(strings.NewReader(string(m.Body)))
	d.UseNumber()
	if err := d.Decode(&doc); err != nil {
		return m.Status, false, false, nil
	}
	for _, a := range doc.Accessories {
		if a.Aid != cl.aid {
			continue
		}
		for _, s := range a.Services {
			for _, c := range s.Characteristics {
				if iid, ok := c["iid"].(json.Number); ok && iid.String() == fmt.Sprint(cl.c.ID) {
					v, hv := c["value"]
					return m.Status, true, hv, v
				}
			}
		}
	}
	return m.Status, false, false, nil
}

func (w *csWorld) put(item J) (int, int, bool) {
	b, _ := json.Marshal(J{"characteristics": []J{item}})
	m, err := w.conn.Do("PUT", "/characteristics", ref.CTJSON, b)
	if err != nil {
		return -1, 0, false
	}
	st := 0
	has := false
	if es, _, err := decodeEntries(m.Body); err == nil && len(es) > 0 && es[0].Status != nil {
		st, has = *es[0].Status, true
	}
	return m.Status, st, has
}

func (w *csWorld) fenceEvents() int {
	w.conn.Do("GET", fmt.Sprintf("/characteristics?id=%d.%d", w.cells[0].aid, w.cells[0].c.ID), "", nil)
	return len(w.conn.TakeEvents())
}

func (w *csWorld) runWord(b Beh, cl *csCell) []J {
	perms := permSet(cl.c)
	// reset the cell to its v0
	func() {
		defer func() { recover() }()
		cl.c.UpdateValue(cl.toks["v0"])
	}()
	w.put(J{"aid": cl.aid, "iid": cl.c.ID, "ev": false})
	w.fenceEvents()
	lines := []J{{"ev": "reset", "case": b.ID, "cell": cl.name}}
	for i, raw := range b.Steps {
		var s csStep
		if json.Unmarshal(raw, &s) != nil {
			continue
		}
		o := J{"ev": "op", "case": b.ID, "i": i, "cell": cl.name, "fmt": fmtClass(cl.c.Format), "perms": perms, "a": s.A, "tok": s.Tok,
			"http": 0, "status": 0, "hasstatus": false, "hasvalue": false, "rtoks": []string{}, "cbtoks": []string{}, "cbn": 0, "apptoks": []string{}, "events": 0, "n": 1, "panic": false}
		cl.cbN, cl.cbVal = 0, nil
		o["samebefore"] = s.Tok != "none" && s.Tok != "" && equalGo(cl.c.Value, cl.toks[s.Tok])
		switch s.A {
		case "LocalSet":
			func() {
				defer func() {
					if r := recover(); r != nil {
						o["panic"] = true
					}
				}()
				cl.c.UpdateValue(cl.toks[s.Tok])
			}()
		case "RemoteWrite":
			o["http"], o["status"], o["hasstatus"] = w.put(J{"aid": cl.aid, "iid": cl.c.ID, "value": cl.toks[s.Tok]})
		case "PanickyWrite":
			// the application's callback panics while the write is announced: the server drops the connection, the
			// controller connects (and verifies) again
			cl.panicNext = true
			o["http"], o["status"], o["hasstatus"] = w.put(J{"aid": cl.aid, "iid": cl.c.ID, "value": cl.toks[s.Tok]})
			dropped := cl.panicNext == false
			cl.panicNext = false
			o["dropped"] = dropped
			if dropped {
				w.conn.Close()
				nc, err := w.tr.verifiedConn(w.id, w.tr.AccessoryLTPK(), w.rng)
				if err != nil {
					o["reconnect"] = err.Error()
				} else {
					w.conn = nc
				}
			}
		case "RemoteWriteSub":
			o["http"], o["status"], o["hasstatus"] = w.put(J{"aid": cl.aid, "iid": cl.c.ID, "value": cl.toks[s.Tok], "ev": true})
		case "RemoteRead":
			h, hv, v, st, n := w.getOne(cl)
			o["http"], o["hasvalue"], o["status"], o["n"] = h, hv, st, n
			if hv {
				o["rtoks"] = cl.toksOfJSON(v)
			}
		case "GetterRead":
			// the application answers the read through a getter installed for the duration of this read
			tok := cl.toks[s.Tok]
			cl.c.OnValueGet(func() interface{} { return tok })
			h, hv, v, st, n := w.getOne(cl)
			cl.c.OnValueGet(nil)
			o["http"], o["hasvalue"], o["status"], o["n"] = h, hv, st, n
			if hv {
				o["rtoks"] = cl.toksOfJSON(v)
			}
		case "AccRead":
			h, found, hv, v := w.accValue(cl)
			o["http"], o["hasvalue"] = h, hv
			if !found {
				o["n"] = 0
			}
			if hv {
				o["rtoks"] = cl.toksOfJSON(v)
			}
		case "Sub", "Unsub":
			o["http"], o["status"], o["hasstatus"] = w.put(J{"aid": cl.aid, "iid": cl.c.ID, "ev": s.A == "Sub"})
		case "SubTwin", "UnsubTwin":
			// the twin: an evented characteristic with the same instance id in another accessory
			var tw *csCell
			for _, x := range w.cells {
				if x.c.ID == cl.c.ID && x.aid != cl.aid && has(permSet(x.c), "ev") {
					tw = x
					break
				}
			}
			if tw == nil {
				o["twin"] = "none"
			} else {
				o["twin"] = tw.name
				w.put(J{"aid": tw.aid, "iid": tw.c.ID, "ev": s.A == "SubTwin"})
				defer w.put(J{"aid": tw.aid, "iid": tw.c.ID, "ev": false})
			}
		default:
			continue
		}
		o["events"] = w.fenceEvents()
		o["cbn"] = cl.cbN
		if cl.cbN > 0 {
			o["cbtoks"] = cl.toksOfGo(cl.cbVal)
		}
		o["apptoks"] = cl.toksOfGo(cl.c.Value)
		o["appnil"] = cl.c.Value == nil
		lines = append(lines, o)
	}
	return lines
}

func (w *csWorld) runList(b Beh) []J {
	var s csStep
	if len(b.Steps) == 0 || json.Unmarshal(b.Steps[0], &s) != nil {
		return nil
	}
	if s.A == "WriteList" {
		return w.runWList(b, s)
	}
	// concrete ids: two readable cells chosen by seed, the write-only cell, a missing id
	rng := rngFor(w.seed, 14000000+b.ID)
	var readable []*csCell
	for _, cl := range w.cells {
		if has(permSet(cl.c), "pr") {
			readable = append(readable, cl)
		}
	}
	e1, e2 := readable[rng.Intn(len(readable))], readable[rng.Intn(len(readable))]
	var parts []string
	kinds := []string{}
	want := [][2]uint64{}
	for _, k := range s.Ids {
		var aid, iid uint64
		switch k {
		case "e1":
			aid, iid = e1.aid, e1.c.ID
		case "e2":
			aid, iid = e2.aid, e2.c.ID
		case "wo":
			if w.wo == nil {
				return nil
			}
			aid, iid = w.wo.aid, w.wo.c.ID
		case "missing":
			aid, iid = []uint64{1, 99, e1.aid}[rng.Intn(3)], uint64(9000+rng.Intn(100))
		}
		parts = append(parts, fmt.Sprintf("%d.%d", aid, iid))
		kinds = append(kinds, k)
		want = append(want, [2]uint64{aid, iid})
	}
	m, err := w.conn.Do("GET", "/characteristics?id="+strings.Join(parts, ","), "", nil)
	o := J{"ev": "list", "case": b.ID, "i": 0, "kinds": kinds, "http": -1, "n": 0, "idsok": false, "values": []bool{}, "statuses": []bool{}, "zero": []bool{}}
	if err == nil {
		o["http"] = m.Status
		es, hv, derr := decodeEntries(m.Body)
		if derr == nil {
			o["n"] = len(es)
			idsok := len(es) == len(want)
			vals, sts, zero := []bool{}, []bool{}, []bool{}
			for i, e := range es {
				if i < len(want) && (e.Aid != want[i][0] || e.Iid != want[i][1]) {
					idsok = false
				}
				vals = append(vals, hv[i])
				sts = append(sts, e.Status != nil)
				zero = append(zero, e.Status != nil && *e.Status == 0)
			}
			o["idsok"], o["values"], o["statuses"], o["zero"] = idsok, vals, sts, zero
		}
	}
	return []J{o}
}

// runWList sends one PUT with a list of entries: two writable cells, a read-only cell, ids that do not exist.
func (w *csWorld) runWList(b Beh, s csStep) []J {
	rng := rngFor(w.seed, 15000000+b.ID)
	var writable, readonly []*csCell
	for _, cl := range w.cells {
		p := permSet(cl.c)
		if has(p, "pr") && has(p, "pw") {
			writable = append(writable, cl)
		} else if has(p, "pr") {
			readonly = append(readonly, cl)
		}
	}
	if len(writable) < 2 || len(readonly) == 0 {
		return nil
	}
	i1 := rng.Intn(len(writable))
	i2 := (i1 + 1 + rng.Intn(len(writable)-1)) % len(writable)
	w1, w2, ro := writable[i1], writable[i2], readonly[rng.Intn(len(readonly))]
	differing := func(cl *csCell) (interface{}, bool) {
		for _, t := range []string{"v1", "v2", "v0"} {
			if !equalGo(cl.c.Value, cl.toks[t]) {
				return cl.toks[t], true
			}
		}
		return cl.toks["v1"], false
	}
	type ent struct {
		cl     *csCell
		before interface{}
		wrote  interface{}
		tell   bool
	}
	var items []J
	kinds := []string{}
	want := [][2]uint64{}
	ents := []ent{}
	for _, k := range s.Ids {
		var cl *csCell
		switch k {
		case "w1":
			cl = w1
		case "w2":
			cl = w2
		case "ro":
			cl = ro
		}
		kinds = append(kinds, k)
		if cl == nil {
			aid, iid := []uint64{1, 99, w1.aid}[rng.Intn(3)], uint64(9000+rng.Intn(100))
			items = append(items, J{"aid": aid, "iid": iid, "value": 1})
			want = append(want, [2]uint64{aid, iid})
			ents = append(ents, ent{})
			continue
		}
		v, tell := differing(cl)
		items = append(items, J{"aid": cl.aid, "iid": cl.c.ID, "value": v})
		want = append(want, [2]uint64{cl.aid, cl.c.ID})
		ents = append(ents, ent{cl: cl, before: cl.c.Value, wrote: v, tell: tell})
	}
	body, _ := json.Marshal(J{"characteristics": items})
	m, err := w.conn.Do("PUT", "/characteristics", ref.CTJSON, body)
	o := J{"ev": "wlist", "case": b.ID, "i": 0, "kinds": kinds, "http": -1, "n": 0, "idsok": false, "statuses": []bool{}, "zero": []bool{}, "applied": []bool{}}
	if err == nil {
		o["http"] = m.Status
		if len(m.Body) > 0 {
			if es, _, derr := decodeEntries(m.Body); derr == nil {
				o["n"] = len(es)
				idsok := len(es) == len(want)
				sts, zero := []bool{}, []bool{}
				for i, e := range es {
					if i < len(want) && (e.Aid != want[i][0] || e.Iid != want[i][1]) {
						idsok = false
					}
					sts = append(sts, e.Status != nil)
					zero = append(zero, e.Status != nil && *e.Status == 0)
				}
				o["idsok"], o["statuses"], o["zero"] = idsok, sts, zero
			}
		}
	}
	applied := []bool{}
	for _, e := range ents {
		switch {
		case e.cl == nil:
			applied = append(applied, false)
		case has(permSet(e.cl.c), "pw"):
			applied = append(applied, equalGo(e.cl.c.Value, e.wrote)) // the application sees what was written
		default:
			applied = append(applied, e.tell && !equalGo(e.cl.c.Value, e.before)) // the value moved although it may not be written
		}
	}
	o["applied"] = applied
	w.conn.TakeEvents()
	return []J{o}
}

func charStackFamily(a *Args) error {
	behs, err := readBehs(a.Beh)
	if err != nil {
		return err
	}
	tr, err := newTracer(a.Trace)
	if err != nil {
		return err
	}
	thorough := a.Tier == "thorough"
	only := strings.TrimPrefix(a.Extra, "cell=")
	if !strings.HasPrefix(a.Extra, "cell=") {
		only = ""
	}
	workers := 8
	worlds := make([]*csWorld, workers)
	for k := range worlds {
		extra := 0
		if k == 1 {
			extra = 3
		}
		if k == 2 && thorough {
			extra = 150 // a large bridge: /accessories spans hundreds of chunks and frames
		} else if k == 2 {
			extra = 40
		}
		w, err := newCSWorld(a.Seed, k, extra)
		if err != nil {
			return err
		}
		worlds[k] = w
		defer w.close()
	}
	var words, lists []Beh
	for _, b := range behs {
		if b.Kind == "list" {
			lists = append(lists, b)
		} else {
			words = append(words, b)
		}
	}
	ncells := len(worlds[0].cells)
	names := make([]string, 0, ncells)
	for _, cl := range worlds[0].cells {
		names = append(names, cl.name)
	}
	sort.Strings(names)
	var wg sync.WaitGroup
	nexec := 0
	var mu sync.Mutex
	for k := 0; k < workers; k++ {
		wg.Add(1)
		go func(k int) {
			defer wg.Done()
			w := worlds[k]
			n := 0
			for ci, cl := range w.cells {
				if ci%workers != k {
					continue
				}
				for wi, b := range words {
					// quick: a seeded share of the words per cell; thorough: all
					if only != "" {
						if cl.name != only {
							continue
						}
					} else if !thorough && (wi+ci+int(a.Seed))%6 != 0 && !strings.HasPrefix(b.Kind, "attack") {
						continue
					}
					tr.Block(w.runWord(b, cl))
					n++
				}
			}
			for li, b := range lists {
				if li%workers == k {
					tr.Block(w.runList(b))
					n++
				}
			}
			mu.Lock()
			nexec += n
			mu.Unlock()
		}(k)
	}
	wg.Wait()
	fmt.Printf("charstack: %d word executions over %d characteristics of the library on 8 servers (attribute databases of 5 to %d accessories), %d list reads, %d trace lines\n", nexec-len(lists), ncells, 5+map[bool]int{true: 150, false: 40}[thorough], len(lists), tr.n)
	return tr.Close()
}
