package main

// Family "robust": malformed input on every endpoint in every protocol state reachable by a prefix of a correct
// exchange, against hc's real HTTP server; afterwards correct handshakes on the same and on a new connection (C13).

import (
	"bytes"
	"encoding/hex"
	"encoding/json"
	"fmt"
	"image"
	"math/rand"
	"net"
	"os"
	"strings"
	"sync"
	"sync/atomic"
	"time"

	"github.com/brutella/hc/accessory"
	"github.com/brutella/hc/characteristic"
	"github.com/brutella/hc/hap/endpoint"

	"hcverif/ref"
)

func init() { families["robust"] = robustFamily }

type rbScenario struct {
	Ep  string `json:"ep"`
	St  string `json:"st"`
	Cls string `json:"cls"`
}

type rbWorld struct {
	tr       *Transport
	admin    ref.Identity
	sw       *accessory.Switch
	onIID    uint64
	floatIID uint64
}

func newRBWorld(seed int64, k int) (*rbWorld, error) {
	w := &rbWorld{}
	dir := mkTempDir("hcv-robust")
	w.sw = accessory.NewSwitch(accessory.Info{Name: "Robust"})
	// a float without declared bounds (like DigitalZoom), writable and evented
	fl := characteristic.NewFloat("F10A7000-0000-1000-8000-0026BB765291")
	fl.Format = characteristic.FormatFloat
	fl.Perms = characteristic.PermsAll()
	fl.SetValue(1.5)
	w.sw.Switch.AddCharacteristic(fl.Characteristic)
	w.sw.Accessory.UpdateIDs()
	registerResource = true
	tr, err := startHTTPServer(dir, "00102003", w.sw.Accessory)
	if err != nil {
		return nil, err
	}
	w.tr = tr
	w.onIID = w.sw.Switch.On.ID
	w.floatIID = fl.ID
	w.admin = ref.NewIdentity("robust-admin", rndFunc(rngFor(seed, 15000+k)))
	if err := tr.seedPairing(w.admin); err != nil {
		return nil, err
	}
	return w, nil
}

func (w *rbWorld) close() {
	w.tr.Stop()
	os.RemoveAll(w.tr.Dir)
}

var _ = endpoint.NewResource
var _ image.Image

// honest exchanges used as prefixes and follow-ups ------------------------------------------------

// setupUpTo runs pair-setup on c up to and including the response named: "M2", "M4", "M6". Returns rejected starts.
func (w *rbWorld) setupUpTo(c *ref.Conn, id ref.Identity, rng *rand.Rand, upto string, maxRejected int) (sc *ref.SetupClient, rejected int, err error) {
	for attempt := 0; attempt < 8; attempt++ {
		sc = &ref.SetupClient{Pin: "001-02-003", ID: id, Rnd: rndFunc(rng)}
		m, t, e := c.PostTLV("/pair-setup", sc.M1())
		if e != nil {
			return nil, rejected, e
		}
		if m.Status != 200 {
			rejected++
			if rejected > maxRejected {
				return nil, rejected, fmt.Errorf("start rejected %d times (http %d)", rejected, m.Status)
			}
			continue
		}
		if e := sc.HandleM2(t); e != nil {
			if e == ref.ErrRedrawB {
				return nil, rejected, e
			}
			if e == ref.ErrRedraw {
				// B or S with a leading zero byte: finish this exchange with a wrong proof (resets the machine) and start over
				var bad ref.TLV
				bad.AddByte(ref.TagState, 3)
				bad.Add(ref.TagPublicKey, sc.SRP.Abytes)
				bad.Add(ref.TagProof, make([]byte, 64))
				c.PostTLV("/pair-setup", bad)
				continue
			}
			return nil, rejected, e
		}
		if upto == "M2" {
			return sc, rejected, nil
		}
		_, t, e = c.PostTLV("/pair-setup", sc.M3())
		if e != nil {
			return nil, rejected, e
		}
		if e := sc.HandleM4(t); e != nil {
			return nil, rejected, e
		}
		if upto == "M4" {
			return sc, rejected, nil
		}
		_, t, e = c.PostTLV("/pair-setup", sc.M5())
		if e != nil {
			return nil, rejected, e
		}
		return sc, rejected, sc.HandleM6(t)
	}
	return nil, rejected, fmt.Errorf("too many redraws")
}

func (w *rbWorld) verifyUpTo(c *ref.Conn, id ref.Identity, rng *rand.Rand, upto string, maxRejected int) (vc *ref.VerifyClient, rejected int, err error) {
	for {
		vc = &ref.VerifyClient{ID: id, Rnd: rndFunc(rng)}
		m, t, e := c.PostTLV("/pair-verify", vc.V1())
		if e != nil {
			return nil, rejected, e
		}
		if m.Status != 200 {
			rejected++
			if rejected > maxRejected {
				return nil, rejected, fmt.Errorf("start rejected %d times (http %d)", rejected, m.Status)
			}
			continue
		}
		if e := vc.HandleV2(t, w.tr.AccessoryLTPK()); e != nil {
			return nil, rejected, e
		}
		if upto == "V2" {
			return vc, rejected, nil
		}
		m, t, e = c.PostTLV("/pair-verify", vc.V3())
		if e != nil {
			return nil, rejected, e
		}
		if m.Status != 200 {
			return nil, rejected, fmt.Errorf("V4 http %d", m.Status)
		}
		if e := ref.HandleV4(t); e != nil {
			return nil, rejected, e
		}
		c.Upgrade(vc.Shared)
		w.tr.WaitEncrypted(c.C.LocalAddr().String())
		return vc, rejected, nil
	}
}

// malformed bodies ---------------------------------------------------------------------------------

func rbTLVBody(sc rbScenario, setup *ref.SetupClient, vc *ref.VerifyClient, rng *rand.Rand, v int) []byte {
	rnd := func(n int) []byte { b := make([]byte, n); rng.Read(b); return b }
	// the correct next message of the state, as a base to damage
	var base ref.TLV
	stateByte := byte(1)
	switch {
	case sc.Ep == "pair-setup" && sc.St == "afterM2":
		base, stateByte = setup.M3(), 3
	case sc.Ep == "pair-setup" && sc.St == "afterM4":
		base, stateByte = setup.M5(), 5
	case sc.Ep == "pair-verify" && sc.St == "afterV2":
		base, stateByte = vc.V3(), 3
	case sc.Ep == "pair-setup":
		base = (&ref.SetupClient{}).M1()
	case sc.Ep == "pair-verify":
		base = (&ref.VerifyClient{Rnd: rndFunc(rng)}).V1()
	case sc.Ep == "pairings":
		base.AddByte(ref.TagState, 1)
		base.AddByte(ref.TagMethod, 3)
		base.Add(ref.TagIdentifier, []byte("robust-extra"))
		base.Add(ref.TagPublicKey, rnd(32))
		base.AddByte(ref.TagPermission, 0)
	}
	enc := base.Encode()
	switch sc.Cls {
	case "twin_closed":
		return enc // the correct start request
	case "degenerate_key":
		// a well-formed message whose public key is a degenerate group element
		var t ref.TLV
		if sc.Ep == "pair-verify" {
			// a start request (in every state) with a Curve25519 point of low order
			lo := []string{
				"0000000000000000000000000000000000000000000000000000000000000000",
				"0100000000000000000000000000000000000000000000000000000000000000",
				"e0eb7a7c3b41b8ae1656e3faf19fc46ada098deb9c32b1fd866205165f49b800",
				"5f9c95bca3508c24b1d0b1559c83ef5b04445cc4581c8e86d8224eddd09f1157",
				"ecffffffffffffffffffffffffffffffffffffffffffffffffffffffffffff7f",
				"edffffffffffffffffffffffffffffffffffffffffffffffffffffffffffff7f",
				"eeffffffffffffffffffffffffffffffffffffffffffffffffffffffffffff7f",
			}
			k, _ := hex.DecodeString(lo[v%len(lo)])
			t.AddByte(ref.TagState, 1)
			t.Add(ref.TagPublicKey, k)
			return t.Encode()
		}
		// pair-setup: a verify request whose SRP public key is 0 modulo the group's prime (0, or 384 bytes of zeros / 0xff)
		a := [][]byte{{0}, make([]byte, 384), bytes.Repeat([]byte{0xff}, 384), {}}[v%4]
		t.AddByte(ref.TagState, 3)
		t.Add(ref.TagPublicKey, a)
		t.Add(ref.TagProof, rnd(64))
		return t.Encode()
	case "garbage":
		return rnd([]int{1, 2, 3, 17, 255, 256, 300, 1000}[v%8])
	case "truncated":
		if len(enc) < 2 {
			return []byte{6}
		}
		return enc[:1+rng.Intn(len(enc)-1)]
	case "overlong_item":
		if sc.Ep == "pairings" && v%2 == 1 {
			// a complete, well-formed request whose identifier is longer than anything that can be stored under its name
			var t ref.TLV
			t.AddByte(ref.TagState, 1)
			t.AddByte(ref.TagMethod, []byte{3, 4}[(v/2)%2])
			t.Add(ref.TagIdentifier, bytes.Repeat([]byte("A"), []int{118, 200, 600}[(v/4)%3]))
			t.Add(ref.TagPublicKey, rnd(32))
			t.AddByte(ref.TagPermission, 0)
			return t.Encode()
		}
		switch v % 3 {
		case 0:
			return append(append([]byte{}, enc...), ref.TagPublicKey, 200, 1, 2, 3) // announces 200, carries 3
		case 1:
			var t ref.TLV
			t.AddByte(ref.TagState, stateByte)
			t.Add(ref.TagPublicKey, rnd(5000)) // many 255-byte fragments
			t.Add(ref.TagProof, rnd(700))
			t.Add(ref.TagEncrypted, rnd(3000))
			return t.Encode()
		default:
			return append([]byte{ref.TagState, 255}, rnd(10)...)
		}
	case "dup_item":
		var t ref.TLV
		t = append(t, base...)
		t = append(t, base...)
		t.AddByte(ref.TagState, byte(rng.Intn(8)))
		return t.Encode()
	case "missing_item":
		var t ref.TLV
		t.AddByte(ref.TagState, stateByte)
		if v%2 == 0 && len(base) > 2 {
			t = append(t, base[1]) // only one of the required items
		}
		return t.Encode()
	case "short_enc":
		var t ref.TLV
		t.AddByte(ref.TagState, stateByte)
		t.Add(ref.TagEncrypted, rnd([]int{0, 1, 8, 15}[v%4]))
		return t.Encode()
	case "wrong_tag":
		var t ref.TLV
		for _, it := range base {
			if it.Tag == ref.TagEncrypted && len(it.Val) >= 16 {
				x := append([]byte{}, it.Val...)
				x[len(x)-1-rng.Intn(16)] ^= 1 << uint(rng.Intn(8))
				t.Add(it.Tag, x)
			} else {
				t.Add(it.Tag, it.Val)
			}
		}
		if _, ok := base.Get(ref.TagEncrypted); !ok {
			t = nil
			t.AddByte(ref.TagState, 5)
			t.Add(ref.TagEncrypted, rnd(16+rng.Intn(100)))
		}
		return t.Encode()
	case "inner_damaged":
		// the outer message is correct (right key, right nonce): the damage is inside the box
		rs := func(n int) []byte { return rnd(n) }
		switch {
		case sc.Ep == "pair-setup" && sc.St == "afterM4" && setup != nil:
			inner := ref.SubTLV5(setup.SRP.K, setup.ID)
			var t ref.TLV
			switch v % 10 {
			case 0: // no public key
				t = ref.TLV{inner[0], inner[2]}
			case 1:
				t = ref.TLV{inner[0], {Tag: ref.TagPublicKey, Val: rs(31)}, inner[2]}
			case 2:
				t = ref.TLV{inner[0], {Tag: ref.TagPublicKey, Val: rs(33)}, inner[2]}
			case 3:
				t = ref.TLV{inner[0], {Tag: ref.TagPublicKey, Val: []byte{}}, inner[2]}
			case 4: // no signature
				t = ref.TLV{inner[0], inner[1]}
			case 5:
				t = ref.TLV{inner[0], inner[1], {Tag: ref.TagSignature, Val: rs(63)}}
			case 6: // no identifier
				t = ref.TLV{inner[1], inner[2]}
			case 7:
				t = ref.TLV{{Tag: ref.TagIdentifier, Val: rs(300)}, inner[1], inner[2]}
			case 8:
				return ref.WrapM5(setup.EncKey[:], rs(1+rng.Intn(40))).Encode()
			default:
				t = ref.TLV{}
			}
			return ref.WrapM5(setup.EncKey[:], t.Encode()).Encode()
		case sc.Ep == "pair-verify" && sc.St == "afterV2" && vc != nil:
			inner := ref.SubTLV3(vc.ID, vc.Eph.Pub[:], vc.AccPub)
			var t ref.TLV
			switch v % 8 {
			case 0:
				t = ref.TLV{inner[0]}
			case 1:
				t = ref.TLV{inner[1]}
			case 2:
				t = ref.TLV{inner[0], {Tag: ref.TagSignature, Val: rs(63)}}
			case 3:
				t = ref.TLV{inner[0], {Tag: ref.TagSignature, Val: rs(65)}}
			case 4:
				t = ref.TLV{{Tag: ref.TagIdentifier, Val: []byte{}}, inner[1]}
			case 5:
				t = ref.TLV{{Tag: ref.TagIdentifier, Val: rs(400)}, inner[1]}
			case 6:
				return ref.WrapV3(vc.EncKey[:], rs(1+rng.Intn(40))).Encode()
			default:
				t = ref.TLV{}
			}
			return ref.WrapV3(vc.EncKey[:], t.Encode()).Encode()
		}
		return rnd(20)
	case "empty_body":
		return []byte{}
	case "unknown_method":
		var t ref.TLV
		t.AddByte(ref.TagState, stateByte)
		t.AddByte(ref.TagMethod, []byte{1, 2, 7, 0xff}[v%4])
		return append(t.Encode(), enc...)
	case "unknown_step":
		var t ref.TLV
		t.AddByte(ref.TagState, []byte{0, 7, 8, 0x42, 0xff}[v%5])
		return t.Encode()
	case "huge":
		var t ref.TLV
		t.AddByte(ref.TagState, stateByte)
		for i := 0; i < 40; i++ {
			t.Add(byte(rng.Intn(256)), rnd(255*rng.Intn(12)))
		}
		return t.Encode()
	}
	return enc
}

func (w *rbWorld) rbJSONRequest(sc rbScenario, rng *rand.Rand, v int) (method, path, ctype string, body []byte, twice bool) {
	iid := w.onIID
	switch sc.Ep {
	case "characteristics-put":
		method, path, ctype = "PUT", "/characteristics", ref.CTJSON
	case "characteristics-get":
		method, path = "GET", "/characteristics?id=1."+fmt.Sprint(iid)
	case "resource":
		method, path, ctype = "POST", "/resource", ref.CTJSON
	case "accessories":
		method, path = "GET", "/accessories"
	case "identify":
		method, path = "POST", "/identify"
	}
	item := func(x string) []byte {
		if sc.Ep == "resource" {
			return []byte(x)
		}
		return []byte(`{"characteristics":[` + x + `]}`)
	}
	switch sc.Cls {
	case "not_json":
		body = [][]byte{[]byte("<<<not json>>>"), []byte("{\"characteristics\":[{"), []byte{0xff, 0xfe, 0x00, 0x01}, []byte("]]]]")}[v%4]
	case "wrong_types":
		if sc.Ep == "resource" {
			body = [][]byte{[]byte(`{"resource-type":5,"image-width":"x","image-height":[]}`), []byte(`{"resource-type":"image","image-width":-5,"image-height":-1}`), []byte(`[1,2,3]`), []byte(`"image"`)}[v%4]
		} else {
			body = [][]byte{[]byte(`{"characteristics":"x"}`), item(`{"aid":"a","iid":[]}`), item(`{"aid":1,"iid":` + fmt.Sprint(iid) + `,"ev":"yes","value":{"x":[true,null]}}`), []byte(`{"characteristics":[null,5,"x"]}`), []byte(`null`),
				[]byte(`{"characteristics":[null]}`), item(`null`), []byte(`{"characteristics":[[]]}`), []byte(`{"characteristics":null}`), item(fmt.Sprintf(`{"aid":1,"iid":%d,"value":null,"ev":null}`, iid))}[v%10]
		}
	case "huge_number":
		if sc.Ep == "resource" {
			body = [][]byte{[]byte(`{"resource-type":"image","image-width":1e400,"image-height":99999999999999999999}`), []byte(`{"resource-type":"image","image-width":4294967296,"image-height":4294967296}`)}[v%2]
		} else {
			body = [][]byte{item(`{"aid":99999999999999999999,"iid":1}`), item(fmt.Sprintf(`{"aid":1,"iid":%d,"value":1e400}`, iid)), item(fmt.Sprintf(`{"aid":1,"iid":%d,"value":-99999999999999999999999}`, iid)), item(`{"aid":-1,"iid":-1,"value":1}`)}[v%4]
		}
	case "nonfinite_value":
		x := []string{`"-1e999"`, `"1e999"`, `"NaN"`, `"-Inf"`, `"+Inf"`, `"Infinity"`, `"-Infinity"`, `"-1E+400"`, `"nan"`, `"-inf"`}[v%10]
		body = item(fmt.Sprintf(`{"aid":1,"iid":%d,"value":%s}`, w.floatIID, x))
	case "deep_nesting":
		n := []int{100, 5000, 100000}[v%3]
		body = []byte(`{"characteristics":` + strings.Repeat("[", n) + strings.Repeat("]", n) + `}`)
	case "composite_value":
		body = [][]byte{item(fmt.Sprintf(`{"aid":1,"iid":%d,"value":[1,2]}`, iid)), item(fmt.Sprintf(`{"aid":1,"iid":%d,"value":{"a":1}}`, iid)), item(fmt.Sprintf(`{"aid":1,"iid":%d,"value":[[]]}`, w.sw.Info.Name.ID))}[v%3]
	case "composite_twice":
		body = [][]byte{item(fmt.Sprintf(`{"aid":1,"iid":%d,"value":[1,2]}`, w.sw.Info.Name.ID)), item(fmt.Sprintf(`{"aid":1,"iid":%d,"value":{"a":1}}`, w.sw.Info.Name.ID)), item(fmt.Sprintf(`{"aid":1,"iid":%d,"value":{"a":1}}`, iid))}[v%3]
		twice = true
	case "empty_body":
		body = []byte{}
	case "odd_query":
		method = "GET"
		path = []string{"/characteristics?id=", "/characteristics?id=1", "/characteristics?id=a.b", "/characteristics?id=1.2.3", "/characteristics?id=99999999999999999999.1",
			"/characteristics?id=" + strings.Repeat("1.2,", 3000) + "1.2", "/characteristics", "/characteristics?id=1.2&id=1.3&meta=1&perms=x", "/characteristics?id=%zz", "/accessories?x=" + strings.Repeat("a", 5000)}[v%10]
		body, ctype = nil, ""
	}
	return
}

func (w *rbWorld) runScenario(b Beh, sc rbScenario, seed int64, variants int, tr *Tracer) error {
	var lines []J
	for v := 0; v < variants; v++ {
		if atomic.LoadInt64(&ref.Timeouts) > 60 {
			// the server has stopped answering (dozens of reads timed out): what was recorded decides, the rest is skipped
			break
		}
		rng := rngFor(seed, 16000000+b.ID*100+v)
		var c *ref.Conn
		var err error
		if sc.Cls == "twin_closed" {
			c, err = ref.DialReuse(w.tr.Addr, "127.0.0.1:0")
		} else {
			c, err = ref.Dial(w.tr.Addr)
		}
		if err != nil {
			return err
		}
		c.Timeout = 5 * time.Second
		port := c.C.LocalAddr().String()
		o := J{"ev": "mal", "case": b.ID, "i": 0, "v": v, "ep": sc.Ep, "st": sc.St, "cls": sc.Cls, "answered": false, "dropped": false, "http": -1,
			"panics": 0, "closedAfter": false, "sameOK": false, "rejectedStarts": 0, "newOK": false, "prefixOK": true}
		id := ref.NewIdentity(fmt.Sprintf("robust-%d-%d", b.ID, v), rndFunc(rng))
		var setup *ref.SetupClient
		var vc *ref.VerifyClient
		// prefix of a correct exchange
		switch sc.St {
		case "afterM2":
			setup, _, err = w.setupUpTo(c, id, rng, "M2", 0)
		case "afterM4":
			setup, _, err = w.setupUpTo(c, id, rng, "M4", 0)
		case "afterV2":
			vc, _, err = w.verifyUpTo(c, w.admin, rng, "V2", 0)
		case "verified":
			_, _, err = w.verifyUpTo(c, w.admin, rng, "V4", 0)
		}
		if err == ref.ErrRedrawB {
			c.Close()
			variants++ // unlucky B on this connection: not counted, try another connection
			if variants > 200 {
				return fmt.Errorf("case %d: too many redraws", b.ID)
			}
			continue
		}
		if err != nil {
			// the correct messages that lead to the scenario's state were refused: the accessory does not complete a
			// correct handshake any more (whatever an earlier scenario left behind); the scenario itself cannot be run
			c.Close()
			o["prefixOK"], o["prefixErr"] = false, err.Error()
			o["answered"], o["newOK"], o["closedAfter"] = true, true, true
			lines = append(lines, o)
			continue
		}
		// the malformed message
		var m *ref.Msg
		if sc.Cls == "twin_closed" {
			// a second connection from the same address and port to another local address of the accessory comes and goes
			_, p, _ := net.SplitHostPort(w.tr.Addr)
			tw, terr := ref.DialReuse("127.0.0.2:"+p, port)
			if terr != nil {
				c.Close()
				return fmt.Errorf("case %d: the twin connection cannot be made: %v", b.ID, terr)
			}
			time.Sleep(20 * time.Millisecond) // the server has accepted it
			tw.Close()
			time.Sleep(50 * time.Millisecond) // and noticed that it is gone
		}
		send := func() {
			switch sc.Ep {
			case "pair-setup", "pair-verify", "pairings":
				m, err = c.Do("POST", "/"+sc.Ep, ref.CTTLV, rbTLVBody(sc, setup, vc, rng, v))
			default:
				method, path, ctype, body, twice := w.rbJSONRequest(sc, rng, v)
				if twice {
					c.Do(method, path, ctype, body)
				}
				m, err = c.Do(method, path, ctype, body)
			}
		}
		send()
		if err != nil {
			o["dropped"] = true
		} else {
			o["answered"], o["http"] = true, m.Status
			if strings.EqualFold(m.Header["connection"], "close") {
				o["closedAfter"] = true
			}
		}
		// same connection: a correct handshake after at most one rejected start (pairing endpoints), or a normal request
		if err == nil && o["closedAfter"] == false {
			switch {
			case sc.Ep == "pair-setup":
				_, rej, e := w.setupUpTo(c, id, rng, "M6", 1)
				if e == ref.ErrRedrawB {
					e = nil // the reference controller cannot judge this connection's B (padding ambiguity): not counted
					o["redrawB"] = true
				}
				o["sameOK"], o["rejectedStarts"] = e == nil, rej
				if e != nil {
					o["sameErr"] = e.Error()
				}
			case sc.Ep == "pair-verify":
				_, rej, e := w.verifyUpTo(c, w.admin, rng, "V4", 1)
				o["sameOK"], o["rejectedStarts"] = e == nil, rej
				if e != nil {
					o["sameErr"] = e.Error()
				}
			case sc.St == "verified":
				r, e := c.Do("GET", "/accessories", "", nil)
				o["sameOK"] = e == nil && r.Status == 200
			default:
				// unverified connection on a protected endpoint: it can still pair-verify and is then served
				_, _, e := w.verifyUpTo(c, w.admin, rng, "V4", 1)
				if e == nil {
					r, e2 := c.Do("GET", "/accessories", "", nil)
					e = e2
					if e == nil && r.Status != 200 {
						e = fmt.Errorf("http %d", r.Status)
					}
				}
				o["sameOK"] = e == nil
			}
		}
		c.Close()
		// new connection: correct pair-verify and a request; for pair-setup scenarios also a correct pair-setup
		c2, err := ref.Dial(w.tr.Addr)
		if err == nil {
			c2.Timeout = 5 * time.Second
			_, _, e := w.verifyUpTo(c2, w.admin, rng, "V4", 0)
			if e == nil {
				r, e2 := c2.Do("GET", "/accessories", "", nil)
				e = e2
				if e == nil && r.Status != 200 {
					e = fmt.Errorf("http %d", r.Status)
				}
			}
			c2.Close()
			if e == nil && sc.Ep == "pair-setup" {
				c3, e3 := ref.Dial(w.tr.Addr)
				if e3 == nil {
					c3.Timeout = 5 * time.Second
					_, _, e = w.setupUpTo(c3, ref.NewIdentity(id.Name+"-new", rndFunc(rng)), rng, "M6", 0)
					c3.Close()
					for tries := 0; e == ref.ErrRedrawB && tries < 20; tries++ {
						c4, e4 := ref.Dial(w.tr.Addr)
						if e4 != nil {
							e = e4
							break
						}
						c4.Timeout = 5 * time.Second
						_, _, e = w.setupUpTo(c4, ref.NewIdentity(id.Name+"-new", rndFunc(rng)), rng, "M6", 0)
						c4.Close()
					}
				} else {
					e = e3
				}
			}
			o["newOK"] = e == nil
			if e != nil {
				o["newErr"] = e.Error()
			}
		}
		// panics logged for the connection under test
		o["panics"] = panicsFor(port)
		lines = append(lines, o)
	}
	// forget the controllers paired by the follow-ups
	for _, e := range w.tr.Entities() {
		if strings.HasPrefix(e.Name, "robust-") && e.Name != w.admin.Name {
			w.tr.DB.DeleteEntity(e)
		}
	}
	tr.Block(lines)
	return nil
}

// panicsFor counts "http: panic serving <addr>" lines for a client address.
func panicsFor(addr string) int {
	stdPanics.mu.Lock()
	defer stdPanics.mu.Unlock()
	return bytes.Count(stdPanics.buf.Bytes(), []byte("http: panic serving "+addr))
}

func robustFamily(a *Args) error {
	behs, err := readBehs(a.Beh)
	if err != nil {
		return err
	}
	tr, err := newTracer(a.Trace)
	if err != nil {
		return err
	}
	variants := 10 // every fixed shape of every class
	if a.Tier == "thorough" {
		variants = 40
	}
	if a.N > 0 {
		variants = a.N
	}
	workers := 8
	if len(behs) < workers {
		workers = 1
	}
	worlds := make([]*rbWorld, workers)
	for k := range worlds {
		w, err := newRBWorld(a.Seed, k)
		if err != nil {
			return err
		}
		worlds[k] = w
		defer w.close()
	}
	var mu sync.Mutex
	var firstErr error
	var wg sync.WaitGroup
	for k := 0; k < workers; k++ {
		wg.Add(1)
		go func(k int) {
			defer wg.Done()
			for i := k; i < len(behs); i += workers {
				var sc rbScenario
				if len(behs[i].Steps) == 0 || json.Unmarshal(behs[i].Steps[0], &sc) != nil {
					continue
				}
				if err := worlds[k].runScenario(behs[i], sc, a.Seed, variants, tr); err != nil {
					mu.Lock()
					if firstErr == nil {
						firstErr = err
					}
					mu.Unlock()
					return
				}
			}
		}(k)
	}
	wg.Wait()
	if firstErr != nil {
		return firstErr
	}
	n, _ := stdPanics.Take()
	fmt.Printf("robust: %d scenarios x %d variants sent to the real server, %d handler panics logged in total\n", len(behs), variants, n)
	return tr.Close()
}
