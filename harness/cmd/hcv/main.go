// hcv: conformance harness binding the TLA+ specifications in /verif/specs to brutella/hc.
// Usage: hcv <family> --beh <behaviours.ndjson> --trace <out.ndjson> --seed N --tier quick|thorough
package main

import (
	"bufio"
	"encoding/json"
	"flag"
	"fmt"
	"io"
	"math/rand"
	"os"
	"runtime"
	"sort"
	"sync"

	hclog "github.com/brutella/hc/log"
)

type Args struct {
	Beh, Trace, Tier, Extra, Out string
	Seed                         int64
	N                            int
}

var families = map[string]func(a *Args) error{}

func init() {
	// A storage child is traced with strace, which counts the file-system calls of the MAIN thread: the main goroutine
	// stays on it (locked during initialisation, it is wired to the main thread).
	if len(os.Args) > 1 && os.Args[1] == "storagechild" {
		runtime.LockOSThread()
	}
}

func main() {
	if len(os.Args) < 2 {
		fmt.Fprintln(os.Stderr, "usage: hcv <family> [flags]")
		os.Exit(2)
	}
	fam := os.Args[1]
	fs := flag.NewFlagSet(fam, flag.ExitOnError)
	a := &Args{}
	fs.StringVar(&a.Beh, "beh", "", "behaviours (ndjson)")
	fs.StringVar(&a.Trace, "trace", "", "trace output (ndjson)")
	fs.StringVar(&a.Tier, "tier", "quick", "quick|thorough")
	fs.StringVar(&a.Extra, "extra", "", "family-specific argument")
	fs.StringVar(&a.Out, "out", "", "family-specific output file")
	fs.Int64Var(&a.Seed, "seed", 1, "seed")
	fs.IntVar(&a.N, "n", 0, "family-specific count")
	fs.Parse(os.Args[2:])
	hclog.Info.Disable()
	f, ok := families[fam]
	if !ok {
		var names []string
		for k := range families {
			names = append(names, k)
		}
		sort.Strings(names)
		fmt.Fprintln(os.Stderr, "unknown family; known:", names)
		os.Exit(2)
	}
	if err := f(a); err != nil {
		fmt.Fprintln(os.Stderr, "hcv:", fam, "failed:", err)
		os.Exit(2)
	}
}

// ---- behaviours

type Beh struct {
	ID    int               `json:"id"`
	Kind  string            `json:"kind"` // word | edge | sim | attack:<guard> | random
	Steps []json.RawMessage `json:"steps"`
	Big   int               `json:"big,omitempty"` // connwrite: frames of the "several frames" payload (0: two)
}

func readBehs(path string) ([]Beh, error) {
	f, err := os.Open(path)
	if err != nil {
		return nil, err
	}
	defer f.Close()
	var out []Beh
	r := bufio.NewReaderSize(f, 1<<20)
	for {
		line, err := r.ReadBytes('\n')
		if len(line) > 1 {
			var b Beh
			if e := json.Unmarshal(line, &b); e != nil {
				return nil, fmt.Errorf("behaviour line: %v", e)
			}
			out = append(out, b)
		}
		if err == io.EOF {
			break
		}
		if err != nil {
			return nil, err
		}
	}
	return out, nil
}

// ---- trace writer (ndjson, goroutine safe per case block)

type Tracer struct {
	mu sync.Mutex
	w  *bufio.Writer
	f  *os.File
	n  int
}

func newTracer(path string) (*Tracer, error) {
	f, err := os.Create(path)
	if err != nil {
		return nil, err
	}
	return &Tracer{w: bufio.NewWriterSize(f, 1<<20), f: f}, nil
}

type J = map[string]interface{}

// Block writes the lines of one case contiguously.
func (t *Tracer) Block(lines []J) {
	t.mu.Lock()
	defer t.mu.Unlock()
	for _, l := range lines {
		b, err := json.Marshal(l)
		if err != nil {
			panic(err)
		}
		t.w.Write(b)
		t.w.WriteByte('\n')
		t.n++
	}
}

func (t *Tracer) Close() error {
	t.w.Flush()
	return t.f.Close()
}

// ---- deterministic randomness

func rngFor(seed int64, salt int) *rand.Rand {
	return rand.New(rand.NewSource(seed*1000003 + int64(salt)*7919 + 17))
}

func rndFunc(r *rand.Rand) func([]byte) {
	return func(b []byte) { r.Read(b) }
}

// parallel runs f(i) for i in [0,n) on w workers.
func parallel(n, w int, f func(i int)) {
	if w < 1 {
		w = 1
	}
	var wg sync.WaitGroup
	ch := make(chan int)
	for k := 0; k < w; k++ {
		wg.Add(1)
		go func() {
			defer wg.Done()
			for i := range ch {
				f(i)
			}
		}()
	}
	for i := 0; i < n; i++ {
		ch <- i
	}
	close(ch)
	wg.Wait()
}

func strs(ss ...string) []string { return ss }

func jsonUnmarshal(b []byte, v interface{}) error { return json.Unmarshal(b, v) }
