package main

// Family "tlvstruct": tlv8.Marshal / Unmarshal against an independent reference encoder and the structure operators of
// TLV8Struct.tla, for synthetic structs covering every field kind and for the RTP message types (C17).

import (
	"bytes"
	"encoding/binary"
	"fmt"
	"math"
	"math/rand"
	"reflect"
	"strconv"
	"strings"

	"github.com/brutella/hc/rtp"
	"github.com/brutella/hc/tlv8"

	"hcverif/ref"
)

func init() { families["tlvstruct"] = tlvStructFamily }

// ---- synthetic shapes: every supported field kind, nesting, tagged and inline lists
type leafAll struct {
	A uint8   `tlv8:"1"`
	B uint16  `tlv8:"2"`
	C uint32  `tlv8:"3"`
	D uint64  `tlv8:"4"`
	E int16   `tlv8:"5"`
	F int32   `tlv8:"6"`
	G int64   `tlv8:"7"`
	H float32 `tlv8:"8"`
	I bool    `tlv8:"9"`
	J string  `tlv8:"10"`
	K []byte  `tlv8:"11"`
}
type small struct {
	X uint8  `tlv8:"1"`
	Y []byte `tlv8:"2"`
}
type nested struct {
	P uint16  `tlv8:"1"`
	Q leafAll `tlv8:"2"`
	R small   `tlv8:"3"`
}
type withLists struct {
	T  uint8   `tlv8:"1"`
	L  []small `tlv8:"2"`
	Z  int64   `tlv8:"3"`
	In []inl   `tlv8:"-"`
}
type inl struct {
	V uint8 `tlv8:"7"`
}
type inlb struct {
	W []byte `tlv8:"8"`
}
type lists2 struct {
	L  []small `tlv8:"4"`
	Ib []inlb  `tlv8:"-"`
	T  uint16  `tlv8:"9"`
}
type inl2 struct {
	V uint8  `tlv8:"7"`
	U uint16 `tlv8:"8"`
	N string `tlv8:"10"`
}
type lists3 struct {
	In2 []inl2 `tlv8:"-"`
	T   uint8  `tlv8:"1"`
}

// an inline list whose elements have a field that may be absent (an empty string is not encoded) BEFORE a field that is
// always present: the segment of an element is where its earliest value lies, whichever field that is
type inl3 struct {
	N string `tlv8:"10"`
	V uint8  `tlv8:"7"`
	K []byte `tlv8:"11"`
	U uint16 `tlv8:"8"`
}
type lists4 struct {
	In3 []inl3 `tlv8:"-"`
	T   uint8  `tlv8:"1"`
}
type onlyFloat struct {
	H float32 `tlv8:"2"`
}
type onlyI64 struct {
	G int64 `tlv8:"1"`
}

var leafKinds = map[reflect.Kind]string{reflect.Uint8: "u8", reflect.Uint16: "u16", reflect.Uint32: "u32", reflect.Uint64: "u64", reflect.Int16: "i16",
	reflect.Int32: "i32", reflect.Int64: "i64", reflect.Float32: "f32", reflect.Bool: "bool", reflect.String: "string"}

func tagOf(f reflect.StructField) (int, bool, bool) {
	t, ok := f.Tag.Lookup("tlv8")
	if !ok {
		return 0, false, false
	}
	if t == "-" {
		return 0, true, true
	}
	n, _ := strconv.Atoi(strings.Split(t, ",")[0])
	return n, true, false
}

// treeOf describes a struct value as the typed tree of TLV8Struct.tla.
func treeOf(v reflect.Value) []J {
	var out []J
	t := v.Type()
	for i := 0; i < t.NumField(); i++ {
		tag, ok, inline := tagOf(t.Field(i))
		if !ok {
			continue
		}
		f := v.Field(i)
		o := J{"tag": tag, "n": 0, "f": []J{}, "e": []J{}}
		switch {
		case f.Kind() == reflect.Slice && f.Type().Elem().Kind() == reflect.Uint8:
			o["k"], o["n"] = "bytes", f.Len()
		case f.Kind() == reflect.Slice:
			o["k"] = "list"
			if inline {
				o["k"] = "inline"
			}
			es := []J{}
			for k := 0; k < f.Len(); k++ {
				es = append(es, J{"f": treeOf(f.Index(k))})
			}
			o["e"] = es
		case f.Kind() == reflect.Struct:
			o["k"], o["f"] = "struct", treeOf(f)
		case f.Kind() == reflect.String:
			o["k"], o["n"] = "string", f.Len()
		default:
			k, ok := leafKinds[f.Kind()]
			if !ok {
				k = "unknown:" + f.Kind().String()
			}
			o["k"] = k
		}
		out = append(out, o)
	}
	return out
}

// refEncode: the independent reference encoder (little-endian integers at their width, IEEE-754 float32, fragments of 255).
func refEncode(v reflect.Value) []byte {
	var out []byte
	item := func(tag int, b []byte) {
		for len(b) > 0 {
			n := len(b)
			if n > 255 {
				n = 255
			}
			out = append(out, byte(tag), byte(n))
			out = append(out, b[:n]...)
			b = b[n:]
		}
	}
	t := v.Type()
	for i := 0; i < t.NumField(); i++ {
		tag, ok, inline := tagOf(t.Field(i))
		if !ok {
			continue
		}
		f := v.Field(i)
		switch f.Kind() {
		case reflect.Uint8:
			item(tag, []byte{byte(f.Uint())})
		case reflect.Bool:
			b := byte(0)
			if f.Bool() {
				b = 1
			}
			item(tag, []byte{b})
		case reflect.Uint16:
			b := make([]byte, 2)
			binary.LittleEndian.PutUint16(b, uint16(f.Uint()))
			item(tag, b)
		case reflect.Int16:
			b := make([]byte, 2)
			binary.LittleEndian.PutUint16(b, uint16(int16(f.Int())))
			item(tag, b)
		case reflect.Uint32:
			b := make([]byte, 4)
			binary.LittleEndian.PutUint32(b, uint32(f.Uint()))
			item(tag, b)
		case reflect.Int32:
			b := make([]byte, 4)
			binary.LittleEndian.PutUint32(b, uint32(int32(f.Int())))
			item(tag, b)
		case reflect.Uint64:
			b := make([]byte, 8)
			binary.LittleEndian.PutUint64(b, f.Uint())
			item(tag, b)
		case reflect.Int64:
			b := make([]byte, 8)
			binary.LittleEndian.PutUint64(b, uint64(f.Int()))
			item(tag, b)
		case reflect.Float32:
			b := make([]byte, 4)
			binary.LittleEndian.PutUint32(b, math.Float32bits(float32(f.Float())))
			item(tag, b)
		case reflect.String:
			item(tag, []byte(f.String()))
		case reflect.Struct:
			item(tag, refEncode(f))
		case reflect.Slice:
			if f.Type().Elem().Kind() == reflect.Uint8 {
				item(tag, f.Bytes())
				break
			}
			for k := 0; k < f.Len(); k++ {
				if k > 0 {
					out = append(out, 0, 0)
				}
				if inline {
					out = append(out, refEncode(f.Index(k))...)
				} else {
					item(tag, refEncode(f.Index(k)))
				}
			}
		}
	}
	return out
}

// parseAlong parses bytes into nested items [tag, total, sub] following the TYPE (which fields nest), merging fragments.
func parseAlong(b []byte, t reflect.Type) ([]J, []J, bool) {
	raw, err := ref.RawItems(b)
	if err != nil {
		return nil, nil, false
	}
	// merge fragments: a 255-byte item followed by the same tag continues
	type merged struct {
		tag   int
		val   []byte
		frags []int
	}
	var ms []merged
	cont := false
	for _, it := range raw {
		if cont && len(ms) > 0 && ms[len(ms)-1].tag == int(it.Tag) {
			ms[len(ms)-1].val = append(ms[len(ms)-1].val, it.Val...)
			ms[len(ms)-1].frags = append(ms[len(ms)-1].frags, len(it.Val))
		} else {
			ms = append(ms, merged{int(it.Tag), append([]byte{}, it.Val...), []int{len(it.Val)}})
		}
		cont = len(it.Val) == 255
	}
	nestedType := map[int]reflect.Type{}
	inlineTypes := []reflect.Type{}
	for i := 0; i < t.NumField(); i++ {
		tag, ok, inline := tagOf(t.Field(i))
		if !ok {
			continue
		}
		ft := t.Field(i).Type
		if ft.Kind() == reflect.Struct {
			nestedType[tag] = ft
		}
		if ft.Kind() == reflect.Slice && ft.Elem().Kind() == reflect.Struct {
			if inline {
				inlineTypes = append(inlineTypes, ft.Elem())
			} else {
				nestedType[tag] = ft.Elem()
			}
		}
	}
	items, frags := []J{}, []J{}
	okAll := true
	for _, m := range ms {
		o := J{"tag": m.tag, "total": len(m.val), "sub": []J{}}
		if nt, ok := nestedType[m.tag]; ok && len(m.val) > 0 {
			sub, _, ok2 := parseAlong(m.val, nt)
			if !ok2 {
				okAll = false
			}
			o["sub"] = sub
		}
		items = append(items, o)
		frags = append(frags, J{"total": len(m.val), "fr": m.frags})
	}
	return items, frags, okAll
}

func fillValue(v reflect.Value, rng *rand.Rand, depth int) {
	ext := func(bits uint) uint64 {
		switch rng.Intn(5) {
		case 0:
			return 0
		case 1:
			return 1
		case 2:
			return 1<<bits - 1
		case 3:
			return 1 << (bits - 1)
		}
		return rng.Uint64() & (1<<bits - 1)
	}
	for i := 0; i < v.NumField(); i++ {
		f := v.Field(i)
		if _, ok, _ := tagOf(v.Type().Field(i)); !ok || !f.CanSet() {
			continue
		}
		switch f.Kind() {
		case reflect.Uint8:
			f.SetUint(ext(8))
		case reflect.Uint16:
			f.SetUint(ext(16))
		case reflect.Uint32:
			f.SetUint(ext(32))
		case reflect.Uint64:
			if rng.Intn(2) == 0 {
				f.SetUint(rng.Uint64())
			} else {
				f.SetUint([]uint64{0, 1, math.MaxUint64, 1 << 63, 1 << 32}[rng.Intn(5)])
			}
		case reflect.Int16:
			f.SetInt(int64(int16(ext(16))))
		case reflect.Int32:
			f.SetInt(int64(int32(ext(32))))
		case reflect.Int64:
			f.SetInt([]int64{0, 1, -1, -2, math.MaxInt64, math.MinInt64, 1 << 32, -(1 << 40), rng.Int63()}[rng.Intn(9)])
		case reflect.Float32:
			f.SetFloat(float64([]float32{0, 1.5, -2.25, 3.4e38, 1e-40, float32(rng.NormFloat64())}[rng.Intn(6)]))
		case reflect.Bool:
			f.SetBool(rng.Intn(2) == 0)
		case reflect.String:
			n := []int{0, 1, 7, 254, 255, 256, 600}[rng.Intn(7)]
			b := make([]byte, n)
			for k := range b {
				b[k] = byte('a' + rng.Intn(26))
			}
			f.SetString(string(b))
		case reflect.Struct:
			fillValue(f, rng, depth+1)
		case reflect.Slice:
			if f.Type().Elem().Kind() == reflect.Uint8 {
				// 250 / 503 make a small{X, Y} list element encode to exactly 255 / 510 bytes
				n := []int{0, 1, 16, 250, 253, 254, 255, 256, 503, 510, 511, 1000}[rng.Intn(12)]
				if n == 0 && depth > 0 {
					n = 1 // a list element that encodes to nothing cannot be represented between two delimiters
				}
				b := make([]byte, n)
				rng.Read(b)
				for k := range b { // keep zero bytes rare: an all-zero element is indistinguishable from absent
					if b[k] == 0 {
						b[k] = 1
					}
				}
				f.SetBytes(b)
				break
			}
			n := rng.Intn(4)
			s := reflect.MakeSlice(f.Type(), n, n)
			for k := 0; k < n; k++ {
				fillValue(s.Index(k), rng, depth+1)
			}
			f.Set(s)
		}
	}
}

// normalise nil / empty slices so that DeepEqual judges values, not representations
func normalise(v reflect.Value) {
	for i := 0; i < v.NumField(); i++ {
		f := v.Field(i)
		switch f.Kind() {
		case reflect.Struct:
			normalise(f)
		case reflect.Slice:
			if f.Len() == 0 && f.CanSet() {
				f.Set(reflect.Zero(f.Type()))
			} else if f.Type().Elem().Kind() == reflect.Struct {
				for k := 0; k < f.Len(); k++ {
					normalise(f.Index(k))
				}
			}
		}
	}
}

var tlvShapes = map[string]func() interface{}{
	"leafAll": func() interface{} { return &leafAll{} }, "small": func() interface{} { return &small{} }, "nested": func() interface{} { return &nested{} },
	"withLists": func() interface{} { return &withLists{} }, "lists2": func() interface{} { return &lists2{} }, "lists3": func() interface{} { return &lists3{} }, "lists4": func() interface{} { return &lists4{} }, "onlyFloat": func() interface{} { return &onlyFloat{} }, "onlyI64": func() interface{} { return &onlyI64{} },
	"rtp.SetupEndpoints": func() interface{} { return &rtp.SetupEndpoints{} }, "rtp.SetupEndpointsResponse": func() interface{} { return &rtp.SetupEndpointsResponse{} },
	"rtp.StreamConfiguration": func() interface{} { return &rtp.StreamConfiguration{} }, "rtp.VideoStreamConfiguration": func() interface{} { return &rtp.VideoStreamConfiguration{} },
	"rtp.AudioStreamConfiguration": func() interface{} { return &rtp.AudioStreamConfiguration{} }, "rtp.StreamingStatus": func() interface{} { return &rtp.StreamingStatus{} },
	"rtp.Configuration": func() interface{} { return &rtp.Configuration{} },
}

func tlvStructFamily(a *Args) error {
	behs, err := readBehs(a.Beh)
	if err != nil {
		return err
	}
	tr, err := newTracer(a.Trace)
	if err != nil {
		return err
	}
	per := 40
	if a.Tier == "thorough" {
		per = 1500
	}
	nm, nd := 0, 0
	for _, b := range behs {
		var s struct {
			Shape string `json:"shape"`
		}
		if len(b.Steps) == 0 {
			continue
		}
		jsonUnmarshal(b.Steps[0], &s)
		mk, ok := tlvShapes[s.Shape]
		if !ok {
			return fmt.Errorf("unknown shape %q", s.Shape)
		}
		var lines []J
		for k := 0; k < per; k++ {
			rng := rngFor(a.Seed, 20000000+b.ID*10000+k)
			p := mk()
			v := reflect.ValueOf(p).Elem()
			fillValue(v, rng, 0)
			o := J{"ev": "marshal", "case": b.ID, "i": 0, "shape": s.Shape, "k": k, "panic": false, "parsed": false, "tree": treeOf(v), "items": []J{}, "frags": []J{}, "digitsok": false, "roundtrip": false}
			var enc []byte
			func() {
				defer func() {
					if r := recover(); r != nil {
						o["panic"] = true
					}
				}()
				var merr error
				enc, merr = tlv8.Marshal(v.Interface())
				if merr != nil {
					o["merr"] = merr.Error()
				}
			}()
			if enc != nil || o["panic"] == false {
				items, frags, okp := parseAlong(enc, v.Type())
				o["parsed"], o["items"], o["frags"] = okp, items, frags
				o["digitsok"] = bytes.Equal(enc, refEncode(v))
				q := mk()
				func() {
					defer func() {
						if r := recover(); r != nil {
							o["panic"] = true
						}
					}()
					if uerr := tlv8.Unmarshal(enc, q); uerr == nil {
						normalise(v)
						normalise(reflect.ValueOf(q).Elem())
						o["roundtrip"] = reflect.DeepEqual(p, q)
					}
				}()
			}
			lines = append(lines, o)
			nm++
			// a nested struct held by pointer that is absent: nothing to encode, the rest of the value round-trips
			if k == 0 {
				type withPtr struct {
					A uint8  `tlv8:"1"`
					P *small `tlv8:"3"`
					Z uint16 `tlv8:"4"`
				}
				op := J{"ev": "marshal-nilptr", "case": b.ID, "i": 0, "shape": s.Shape, "panic": false, "roundtrip": false}
				func() {
					defer func() {
						if r := recover(); r != nil {
							op["panic"] = true
						}
					}()
					in := withPtr{A: uint8(1 + rng.Intn(200)), Z: uint16(1 + rng.Intn(60000))}
					enc, err := tlv8.Marshal(in)
					if err != nil {
						return
					}
					var out withPtr
					if tlv8.Unmarshal(enc, &out) == nil {
						op["roundtrip"] = out.A == in.A && out.Z == in.Z && out.P == nil
					}
				}()
				lines = append(lines, op)
				// lists whose elements are held by pointers (the encoder follows them): the same bytes as the lists of
				// values, and they come back
				type pel struct {
					V uint8  `tlv8:"7"`
					N string `tlv8:"10"`
				}
				type ptrLists struct {
					A  uint8  `tlv8:"1"`
					L  []*pel `tlv8:"2"`
					In []*pel `tlv8:"-"`
				}
				type valLists struct {
					A  uint8 `tlv8:"1"`
					L  []pel `tlv8:"2"`
					In []pel `tlv8:"-"`
				}
				op2 := J{"ev": "marshal-ptrlist", "case": b.ID, "i": 0, "shape": s.Shape, "panic": false, "roundtrip": false, "samebytes": false}
				func() {
					defer func() {
						if r := recover(); r != nil {
							op2["panic"] = true
						}
					}()
					in := ptrLists{A: uint8(1 + rng.Intn(200))}
					ref := valLists{A: in.A}
					for k, n := 0, rng.Intn(3); k < n; k++ {
						e := pel{V: uint8(1 + rng.Intn(200)), N: fmt.Sprintf("l%d", rng.Intn(1000))}
						in.L, ref.L = append(in.L, &pel{V: e.V, N: e.N}), append(ref.L, e)
					}
					for k, n := 0, 1+rng.Intn(3); k < n; k++ {
						e := pel{V: uint8(1 + rng.Intn(200)), N: fmt.Sprintf("i%d", rng.Intn(1000))}
						in.In, ref.In = append(in.In, &pel{V: e.V, N: e.N}), append(ref.In, e)
					}
					enc, err := tlv8.Marshal(in)
					encRef, err2 := tlv8.Marshal(ref)
					if err != nil || err2 != nil {
						return
					}
					op2["samebytes"] = bytes.Equal(enc, encRef)
					var out ptrLists
					if tlv8.Unmarshal(enc, &out) == nil {
						ok := out.A == in.A && len(out.L) == len(in.L) && len(out.In) == len(in.In)
						for k := 0; ok && k < len(in.L); k++ {
							ok = out.L[k] != nil && *out.L[k] == *in.L[k]
						}
						for k := 0; ok && k < len(in.In); k++ {
							ok = out.In[k] != nil && *out.In[k] == *in.In[k]
						}
						op2["roundtrip"] = ok
					}
				}()
				lines = append(lines, op2)
			}
			// arbitrary / damaged bytes into Unmarshal
			for d := 0; d < 3; d++ {
				var in []byte
				switch d {
				case 0:
					in = make([]byte, rng.Intn(40))
					rng.Read(in)
				case 1:
					if len(enc) > 0 {
						in = append([]byte{}, enc[:rng.Intn(len(enc)+1)]...)
					}
				case 2:
					// every tag of the shape with a too short value
					in = []byte{byte(1 + rng.Intn(11)), byte(rng.Intn(3))}
					in = append(in, make([]byte, int(in[1]))...)
				}
				od := J{"ev": "decode", "case": b.ID, "i": 0, "shape": s.Shape, "len": len(in), "panic": false}
				func() {
					defer func() {
						if r := recover(); r != nil {
							od["panic"] = true
						}
					}()
					tlv8.Unmarshal(in, mk())
				}()
				lines = append(lines, od)
				nd++
			}
		}
		tr.Block(lines)
	}
	fmt.Printf("tlvstruct: %d shapes, %d values marshalled and compared, %d byte strings decoded\n", len(behs), nm, nd)
	return tr.Close()
}
