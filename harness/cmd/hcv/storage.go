package main

// Families "storage" (C18: map histories on the real file storage and pairing database) and "storagecrash" (C19: a child
// process performs one storage operation and is killed at a crash point; the parent re-reads with a fresh store).

import (
	"bytes"
	"encoding/json"
	"fmt"
	"math/rand"
	"os"
	"os/exec"
	"sort"
	"strconv"
	"strings"
	"sync"
	"sync/atomic"
	"syscall"

	"github.com/brutella/hc"
	"github.com/brutella/hc/accessory"
	"github.com/brutella/hc/db"
	"github.com/brutella/hc/util"
)

func init() {
	families["storage"] = storageFamily
	families["storagecrash"] = storageCrashFamily
	families["storagechild"] = storageChild
}

type stStep struct {
	Op string `json:"op"`
	K  string `json:"k"`
	V  string `json:"v"`
}

var rawLens = map[string]int{"long": 4096, "mid": 40, "short": 5, "empty": 0}

// concrete material of one case: key names, entity names, values per token
type stWorld struct {
	keys  map[string]string // abstract raw key -> concrete key
	names map[string]string // abstract entity name -> concrete name
	raw   map[string][]byte // value token -> bytes (raw store)
	ent   map[string]db.Entity
}

func newSTWorld(rng *rand.Rand) *stWorld {
	w := &stWorld{keys: map[string]string{}, names: map[string]string{}, raw: map[string][]byte{}, ent: map[string]db.Entity{}}
	pool := []string{"uuid", "version", "configHash", "a.b", "KEY with space", "ü-key", "k.entity.bak", "x" + strings.Repeat("y", 40)}
	rng.Shuffle(len(pool), func(i, j int) { pool[i], pool[j] = pool[j], pool[i] })
	if rng.Intn(3) == 0 {
		// keys that differ only in characters a file name cannot carry as they are, or in their escapes
		tw := []string{"Lamp1.serial", "Lamp:1.serial", "Lamp%3A1.serial", "AA:BB:CC.txt", "AABBCC.txt"}
		rng.Shuffle(len(tw), func(i, j int) { tw[i], tw[j] = tw[j], tw[i] })
		pool = append(tw[:3], pool...)
	}
	if rng.Intn(3) == 0 {
		// keys that are no file names as they are: empty, the directory itself, its parent, a path, a hidden or temporary name
		od := []string{"", ".", "..", "a/b", ".hidden", ".tmp-k1", "...", strings.Repeat("L", 240)}
		rng.Shuffle(len(od), func(i, j int) { od[i], od[j] = od[j], od[i] })
		pool = append(od[:2], pool...)
		if rng.Intn(2) == 0 {
			// ... together with a key that reads like the escaped form of one of them
			pairs := [][2]string{{"", "%00"}, {".hidden", "%2Ehidden"}, {"a/b", "a%2Fb"}, {".", "%2E"}, {"..", "%2E."}, {"%", "%25"}, {".tmp-k1", "%2Etmp-k1"}}
			pr := pairs[rng.Intn(len(pairs))]
			pool = append([]string{pr[0], pr[1]}, pool...)
		}
	}
	seen := map[string]bool{}
	uniq := pool[:0:0]
	for _, k := range pool {
		if !seen[k] {
			seen[k] = true
			uniq = append(uniq, k)
		}
	}
	pool = uniq
	for i, k := range []string{"k1", "k2", "k3"} {
		w.keys[k] = pool[i]
	}
	for _, n := range []string{"n1", "n2", "n3"} {
		ln := 1 + rng.Intn(100)
		b := make([]byte, ln)
		rng.Read(b) // arbitrary bytes, up to 100
		if rng.Intn(3) == 0 {
			b = []byte(fmt.Sprintf("%08X-%04X-4%03X-A%03X-%012X", rng.Uint32(), rng.Intn(65536), rng.Intn(4096), rng.Intn(4096), rng.Int63n(1<<48)))
		}
		w.names[n] = string(b)
	}
	if rng.Intn(4) == 0 {
		w.names["n1"] = "" // the empty identifier is a name like any other
	}
	for tok, n := range rawLens {
		b := make([]byte, n)
		rng.Read(b)
		w.raw[tok] = b
	}
	return w
}

// entity value for a token: key material of different sizes gives JSON of different lengths
func (w *stWorld) entity(name, tok string, rng *rand.Rand) db.Entity {
	key := name + "/" + tok
	if e, ok := w.ent[key]; ok {
		return e
	}
	var pub, priv []byte
	switch tok {
	case "long":
		pub, priv = make([]byte, 32), make([]byte, 3000)
	case "mid":
		pub, priv = make([]byte, 32), make([]byte, 64)
	case "short":
		pub = make([]byte, 32)
	case "empty":
		pub = []byte{}
	}
	rng.Read(pub)
	rng.Read(priv)
	e := db.NewEntity(name, pub, priv)
	w.ent[key] = e
	return e
}

func sameEntity(a, b db.Entity) bool {
	return a.Name == b.Name && bytes.Equal(a.PublicKey, b.PublicKey) && bytes.Equal(a.PrivateKey, b.PrivateKey)
}

func runStorageWord(b Beh, seed int64) ([]J, error) {
	rng := rngFor(seed, 8000000+b.ID)
	w := newSTWorld(rng)
	dir := mkTempDir("hcv-storage")
	defer os.RemoveAll(dir)
	st, err := util.NewFileStorage(dir)
	if err != nil {
		return nil, err
	}
	database := db.NewDatabaseWithStorage(st)
	lines := []J{{"ev": "reset", "case": b.ID}}
	for i, raw := range b.Steps {
		var s stStep
		if err := json.Unmarshal(raw, &s); err != nil {
			return nil, err
		}
		o := J{"ev": "op", "case": b.ID, "i": i, "op": s.Op, "k": s.K, "v": s.V, "ret": "ok", "list": []string{}, "sufok": true}
		switch s.Op {
		case "Set":
			if err := st.Set(w.keys[s.K], w.raw[s.V]); err != nil {
				o["ret"] = "error"
			}
		case "Get":
			got, err := st.Get(w.keys[s.K])
			if err != nil {
				o["ret"] = "notfound"
			} else {
				o["ret"] = "other"
				for tok, v := range w.raw {
					if bytes.Equal(got, v) {
						o["ret"] = tok
					}
				}
			}
		case "Delete":
			st.Delete(w.keys[s.K])
		case "SaveEntity":
			if err := database.SaveEntity(w.entity(w.names[s.K], s.V, rng)); err != nil {
				o["ret"] = "error"
			}
		case "EntityWithName":
			e, err := database.EntityWithName(w.names[s.K])
			if err != nil {
				// not found and unreadable are told apart by whether the key exists
				o["ret"] = "notfound"
				if ks, _ := st.KeysWithSuffix(".entity"); len(ks) > 0 {
					for _, k := range ks {
						if k == fmt.Sprintf("%x.entity", w.names[s.K]) {
							o["ret"] = "other"
						}
					}
				}
			} else {
				o["ret"] = "other"
				for _, tok := range []string{"long", "mid", "short", "empty"} {
					if x, ok := w.ent[w.names[s.K]+"/"+tok]; ok && sameEntity(e, x) {
						o["ret"] = tok
					}
				}
			}
		case "DeleteEntity":
			database.DeleteEntity(db.NewEntity(w.names[s.K], nil, nil))
		case "Keys":
			// every file that is not an entity is a raw key of this case
			all, err := st.KeysWithSuffix("")
			list := []string{}
			if err != nil {
				list = append(list, "error")
			}
			for _, f := range all {
				if strings.HasSuffix(f, ".entity") {
					continue
				}
				name := "other:" + f
				for a, c := range w.keys {
					if c == f {
						name = a
					}
				}
				list = append(list, name)
			}
			sort.Strings(list)
			o["list"] = list
			// listing by suffix: every key is listed under each of its own suffixes, and nothing else is
			for _, f := range all {
				for _, sfx := range []string{f, f[len(f)-minInt(1, len(f)):], f[len(f)-minInt(3, len(f)):]} {
					got, _ := st.KeysWithSuffix(sfx)
					has := false
					for _, g := range got {
						has = has || g == f
						if !strings.HasSuffix(g, sfx) {
							o["sufok"] = false
						}
					}
					if !has {
						o["sufok"] = false
					}
				}
			}
		case "Entities":
			es, err := database.Entities()
			list := []string{}
			if err != nil {
				list = append(list, "error")
			}
			for _, e := range es {
				name := "other:" + e.Name
				for a, c := range w.names {
					if c == e.Name {
						name = a
					}
				}
				list = append(list, name)
			}
			sort.Strings(list)
			o["list"] = list
		case "Reopen":
			st, err = util.NewFileStorage(dir)
			if err != nil {
				return nil, err
			}
			database = db.NewDatabaseWithStorage(st)
		default:
			return nil, fmt.Errorf("unknown op %q", s.Op)
		}
		lines = append(lines, o)
	}
	return lines, nil
}

func storageFamily(a *Args) error {
	behs, err := readBehs(a.Beh)
	if err != nil {
		return err
	}
	tr, err := newTracer(a.Trace)
	if err != nil {
		return err
	}
	// the pseudo case "concurrent writers" (replayed alone when a violation of it is confirmed)
	concOnly := false
	words := behs[:0:0]
	for _, b := range behs {
		if len(b.Steps) == 1 && strings.Contains(string(b.Steps[0]), "ConcurrentSets") {
			concOnly = true
			continue
		}
		words = append(words, b)
	}
	behs = words
	var mu sync.Mutex
	var firstErr error
	parallel(len(behs), 16, func(i int) {
		lines, err := runStorageWord(behs[i], a.Seed)
		if err != nil {
			mu.Lock()
			if firstErr == nil {
				firstErr = err
			}
			mu.Unlock()
			return
		}
		tr.Block(lines)
	})
	if firstErr != nil {
		return firstErr
	}
	// several writers of one key at the same time (stores opened separately on one directory, as separate processes
	// would): every Set succeeds and the key ends up with one of the values in full
	rounds := 40
	if a.Tier == "thorough" {
		rounds = 400
	}
	var conc []J
	for r := 0; r < rounds && (len(behs) > 1 || concOnly); r++ {
		conc = append(conc, concurrentSets(a.Seed, r))
		if r%4 == 0 {
			conc = append(conc, listingWhileDeleting(a.Seed, r))
		}
	}
	tr.Block(conc)
	fmt.Printf("storage: %d histories replayed on real files, %d rounds of concurrent writers, %d trace lines\n", len(behs), len(conc), tr.n)
	return tr.Close()
}

// listingWhileDeleting: one goroutine saves and deletes entities over and over, another one lists; every listing succeeds and
// contains the entity that is never touched
func listingWhileDeleting(seed int64, r int) J {
	dir := mkTempDir("hcv-list")
	defer os.RemoveAll(dir)
	rng := rngFor(seed, 7500000+r)
	st, err := util.NewFileStorage(dir)
	if err != nil {
		return J{"ev": "conc", "case": 3000000, "i": r, "op": "ListingWhileDeleting", "writers": 0, "errs": 1, "final": "other"}
	}
	database := db.NewDatabaseWithStorage(st)
	// the untouched entity is listed after the churning ones in one round and before them in the next (the keys are listed
	// in the order of their file names: what happens when the LAST key has vanished is a case of its own)
	stable := db.NewEntity([]string{"stable", "a-stable"}[(r/4)%2], []byte{1, 2, 3}, nil)
	database.SaveEntity(stable)
	stop := make(chan struct{})
	var wg sync.WaitGroup
	wg.Add(1)
	go func() {
		defer wg.Done()
		names := make([]string, 12)
		for i := range names {
			names[i] = fmt.Sprintf("churn-%d-%d", r, i)
		}
		for k := 0; ; k++ {
			select {
			case <-stop:
				return
			default:
			}
			e := db.NewEntity(names[k%len(names)], []byte{byte(k)}, nil)
			database.SaveEntity(e)
			database.DeleteEntity(e)
		}
	}()
	var nerr, missing int64
	n := 300 + rng.Intn(200)
	for i := 0; i < n; i++ {
		es, err := database.Entities()
		if err != nil {
			nerr++
			continue
		}
		found := false
		for _, e := range es {
			if e.Name == stable.Name {
				found = true
			}
		}
		if !found {
			missing++
		}
	}
	close(stop)
	wg.Wait()
	final := "one"
	if missing > 0 {
		final = "other"
	}
	return J{"ev": "conc", "case": 3000000, "i": r, "op": "ListingWhileDeleting", "writers": 2, "errs": nerr, "final": final}
}

func concurrentSets(seed int64, r int) J {
	dir := mkTempDir("hcv-conc")
	defer os.RemoveAll(dir)
	rng := rngFor(seed, 7000000+r)
	writers := 2 + rng.Intn(6)
	vals := make([][]byte, writers)
	for i := range vals {
		vals[i] = make([]byte, []int{1, 5, 40, 4096, 70000}[rng.Intn(5)]+i)
		rng.Read(vals[i])
	}
	var wg sync.WaitGroup
	var nerr int64
	start := make(chan struct{})
	for i := 0; i < writers; i++ {
		wg.Add(1)
		go func(i int) {
			defer wg.Done()
			st, err := util.NewFileStorage(dir)
			if err != nil {
				atomic.AddInt64(&nerr, 1)
				return
			}
			<-start
			for k := 0; k < 5; k++ {
				if err := st.Set("shared", vals[i]); err != nil {
					atomic.AddInt64(&nerr, 1)
				}
			}
		}(i)
	}
	close(start)
	wg.Wait()
	final := "other"
	if got, ok := readAll(dir)["shared"]; ok {
		for _, v := range vals {
			if bytes.Equal(got, v) {
				final = "one"
			}
		}
	}
	return J{"ev": "conc", "case": 3000000, "i": r, "op": "ConcurrentSets", "writers": writers, "errs": nerr, "final": final}
}

// ---------------------------------------------------------------- crash (C19)

// storageChild performs ONE operation in its own process: hcv storagechild --extra "<op>|<dir>|<key>|<hexvalue-file>"
// with VERIF_CRASH_AT=<k> it kills itself (SIGKILL) on reaching the k-th crash point; VERIF_CRASH_LOG=<file> appends the
// names of the crash points it passes.
func storageChild(a *Args) error {
	parts := strings.Split(a.Extra, "|")
	if len(parts) < 3 {
		return fmt.Errorf("bad child spec")
	}
	op, dir, key := parts[0], parts[1], parts[2]
	at, _ := strconv.Atoi(os.Getenv("VERIF_CRASH_AT"))
	logf := os.Getenv("VERIF_CRASH_LOG")
	n := 0
	util.VerifCrashPoint = func(name string) {
		n++
		if logf != "" {
			f, _ := os.OpenFile(logf, os.O_APPEND|os.O_CREATE|os.O_WRONLY, 0644)
			fmt.Fprintf(f, "%d %s\n", n, name)
			f.Close()
		}
		if at > 0 && n == at {
			syscall.Kill(os.Getpid(), syscall.SIGKILL)
			select {}
		}
	}
	var val []byte
	if len(parts) > 3 && parts[3] != "" {
		b, err := os.ReadFile(parts[3])
		if err != nil {
			return err
		}
		val = b
	}
	switch op {
	case "set":
		st, err := util.NewFileStorage(dir)
		if err != nil {
			return err
		}
		return st.Set(key, val)
	case "setstale":
		// The restarted accessory has the process id (and so the names of its temporary files) of the one that was killed:
		// the temporary file this Set is going to use exists already and holds foreign bytes.  How the library names its
		// temporary files is learnt from a probe write into a scratch directory.
		scratch := mkTempDir("hcv-stale")
		defer os.RemoveAll(scratch)
		st0, err := util.NewFileStorage(scratch)
		if err != nil {
			return err
		}
		tmpName := ""
		util.VerifCrashPoint = func(name string) {
			if name == "set:tmp-created" && tmpName == "" {
				if infos, err := os.ReadDir(scratch); err == nil && len(infos) == 1 {
					tmpName = infos[0].Name()
				}
			}
		}
		st0.Set(key, []byte("probe"))
		util.VerifCrashPoint = func(string) {}
		i := len(tmpName)
		for i > 0 && tmpName[i-1] >= '0' && tmpName[i-1] <= '9' {
			i--
		}
		planted := 0
		if tmpName != "" && i < len(tmpName) {
			cnt, _ := strconv.Atoi(tmpName[i:])
			junk := bytes.Repeat([]byte("STALE-"), 1000)
			for k := 1; k <= 2; k++ {
				if os.WriteFile(dir+"/"+tmpName[:i]+strconv.Itoa(cnt+k), junk, 0644) == nil {
					planted++
				}
			}
		}
		fmt.Printf("stale temporary files planted: %d\n", planted)
		st, err := util.NewFileStorage(dir)
		if err != nil {
			return err
		}
		return st.Set(key, val)
	case "saveentity":
		database, err := db.NewDatabase(dir)
		if err != nil {
			return err
		}
		var e db.Entity
		if err := json.Unmarshal(val, &e); err != nil {
			return err
		}
		return database.SaveEntity(e)
	case "transport":
		// constructing a transport loads and saves uuid / version / configHash and the device entity
		acc := accessory.NewSwitch(accessory.Info{Name: key})
		_, err := hc.NewIPTransport(hc.Config{StoragePath: dir, Pin: "00102003"}, acc.Accessory)
		return err
	}
	return fmt.Errorf("unknown child op %q", op)
}

type crashScenario struct {
	Op  string `json:"op"`  // set | saveentity | transport
	Old string `json:"old"` // absent | empty | short | mid | long
	New string `json:"new"`
}

func storageCrashFamily(a *Args) error {
	behs, err := readBehs(a.Beh)
	if err != nil {
		return err
	}
	tr, err := newTracer(a.Trace)
	if err != nil {
		return err
	}
	self, err := os.Executable()
	if err != nil {
		return err
	}
	var mu sync.Mutex
	var firstErr error
	nkills := 0
	parallel(len(behs), 8, func(i int) {
		b := behs[i]
		var sc crashScenario
		if len(b.Steps) == 0 || json.Unmarshal(b.Steps[0], &sc) != nil {
			return
		}
		rng := rngFor(a.Seed, 9000000+b.ID)
		lines, kills, err := runCrashScenario(self, b.ID, sc, rng)
		if err != nil {
			mu.Lock()
			if firstErr == nil {
				firstErr = err
			}
			mu.Unlock()
			return
		}
		tr.Block(lines)
		mu.Lock()
		nkills += kills
		mu.Unlock()
	})
	if firstErr != nil {
		return firstErr
	}
	fmt.Printf("storagecrash: %d scenarios, %d child processes killed at crash points\n", len(behs), nkills)
	return tr.Close()
}

func valueFor(tok string, rng *rand.Rand) []byte {
	b := make([]byte, rawLens[tok])
	rng.Read(b)
	return b
}

// snapshot of what a fresh store sees
func readAll(dir string) map[string][]byte {
	out := map[string][]byte{}
	st, err := util.NewFileStorage(dir)
	if err != nil {
		return out
	}
	ks, _ := st.KeysWithSuffix("")
	for _, k := range ks {
		v, err := st.Get(k)
		if err == nil {
			out[k] = v
		}
	}
	return out
}

func runCrashScenario(self string, id int, sc crashScenario, rng *rand.Rand) ([]J, int, error) {
	base := mkTempDir("hcv-crash")
	defer os.RemoveAll(base)
	// prepare: other keys that must stay untouched, and the old value
	prepare := func(dir string) (key string, oldVal, newVal []byte, valFile string, err error) {
		st, err := util.NewFileStorage(dir)
		if err != nil {
			return
		}
		st.Set("bystander", []byte("untouched-value"))
		switch sc.Op {
		case "set":
			key = "thekey"
			if sc.Old != "absent" {
				oldVal = valueFor(sc.Old, rngFor(int64(id), 1))
				if err = st.Set(key, oldVal); err != nil {
					return
				}
			}
			newVal = valueFor(sc.New, rngFor(int64(id), 2))
			valFile = dir + ".val"
			err = os.WriteFile(valFile, newVal, 0600)
		case "saveentity":
			w := newSTWorld(rngFor(int64(id), 3))
			name := fmt.Sprintf("%08X-CRASH-4000-A000-%012X", id, id) // valid UTF-8: the value travels to the child as JSON
			key = fmt.Sprintf("%x.entity", name)
			database := db.NewDatabaseWithStorage(st)
			if sc.Old != "absent" {
				e := w.entity(name, sc.Old, rngFor(int64(id), 4))
				if err = database.SaveEntity(e); err != nil {
					return
				}
				oldVal, _ = st.Get(key)
			}
			e := w.entity(name, sc.New, rngFor(int64(id), 5))
			newVal, _ = json.Marshal(e)
			valFile = dir + ".val"
			err = os.WriteFile(valFile, newVal, 0600)
		case "transport":
			key = "Crash Test"
			if sc.Old != "absent" {
				// a previous run of the same accessory left uuid / version / configHash / device entity behind
				cmd := exec.Command(self, "storagechild", "--extra", "transport|"+dir+"|"+key)
				cmd.Env = append(os.Environ(), "VERIF_CRASH_AT=0")
				if out, e := cmd.CombinedOutput(); e != nil {
					err = fmt.Errorf("preparing transport state: %v %s", e, out)
				}
			}
		}
		return
	}
	// recording run: how many crash points does the operation pass?
	recDir := base + "/rec"
	key, _, _, valFile, err := prepare(recDir)
	if err != nil {
		return nil, 0, err
	}
	logf := base + "/points.log"
	cmd := exec.Command(self, "storagechild", "--extra", sc.Op+"|"+recDir+"|"+key+"|"+valFile)
	cmd.Env = append(os.Environ(), "VERIF_CRASH_AT=0", "VERIF_CRASH_LOG="+logf)
	if out, err := cmd.CombinedOutput(); err != nil {
		return nil, 0, fmt.Errorf("recording run failed: %v %s", err, out)
	}
	logb, _ := os.ReadFile(logf)
	points := strings.Split(strings.TrimSpace(string(logb)), "\n")
	if len(points) == 0 || points[0] == "" {
		// the crash-point calls are gone (a rewritten Set): the syscall-level enumeration below stands alone
		points = nil
		if sc.Op == "transport" {
			return nil, 0, nil // too many threads and syscalls for the syscall-level variant; Set and SaveEntity carry the verdict
		}
		if _, err := exec.LookPath("strace"); err != nil {
			return nil, 0, fmt.Errorf("no crash points reached (hooks missing in fileStorage.Set) and no strace to fall back on")
		}
	}
	var lines []J
	kills := 0
	for k := 1; k <= len(points)+1 && points != nil; k++ {
		dir := fmt.Sprintf("%s/run%d", base, k)
		key, oldVal, newVal, valFile, err := prepare(dir)
		if err != nil {
			return nil, 0, err
		}
		before := readAll(dir)
		cmd := exec.Command(self, "storagechild", "--extra", sc.Op+"|"+dir+"|"+key+"|"+valFile)
		at := k
		if k == len(points)+1 {
			at = 0 // completed run
		}
		cmd.Env = append(os.Environ(), fmt.Sprintf("VERIF_CRASH_AT=%d", at))
		err = cmd.Run()
		killed := false
		if ee, ok := err.(*exec.ExitError); ok {
			if ws, ok := ee.Sys().(syscall.WaitStatus); ok && ws.Signaled() {
				killed = true
			}
		}
		if at > 0 && !killed {
			return nil, 0, fmt.Errorf("child was not killed at crash point %d (%v)", at, err)
		}
		if killed {
			kills++
		}
		after := readAll(dir)
		pname := "completed"
		if at > 0 {
			pname = strings.SplitN(points[k-1], " ", 2)[1]
		}
		if sc.Op == "transport" {
			// every key individually: old value, or a well-formed new one; never empty / truncated / mixed
			for _, kk := range []string{"uuid", "version", "configHash"} {
				o := J{"ev": "crash", "case": id, "i": 0, "op": sc.Op, "old": sc.Old, "new": sc.New, "point": pname, "k": k, "key": kk, "killed": killed}
				ov, had := before[kk]
				nv, has := after[kk]
				state := "other"
				switch {
				case !has && !had:
					state = "old"
				case has && had && bytes.Equal(ov, nv):
					state = "old"
				case has && wellFormedConfig(kk, nv) && (!had || !bytes.Equal(ov, nv)):
					state = "new"
				}
				o["reads"] = state
				o["others_ok"] = bytes.Equal(after["bystander"], []byte("untouched-value"))
				o["temp_listed"] = false
				o["follow"] = "next"
				lines = append(lines, o)
			}
			// the device entity must be readable whenever it is listed
			database, _ := db.NewDatabase(dir)
			_, eerr := database.Entities()
			lines = append(lines, J{"ev": "crash", "case": id, "i": 0, "op": sc.Op, "old": sc.Old, "new": sc.New, "point": pname, "k": k, "key": "entities",
				"killed": killed, "reads": map[bool]string{true: "old", false: "other"}[eerr == nil], "others_ok": true, "temp_listed": false, "follow": "next"})
			continue
		}
		o := J{"ev": "crash", "case": id, "i": 0, "op": sc.Op, "old": sc.Old, "new": sc.New, "point": pname, "k": k, "key": "target", "killed": killed}
		got, has := after[key]
		switch {
		case !has && sc.Old == "absent":
			o["reads"] = "old"
		case has && sc.Old != "absent" && bytes.Equal(got, oldVal) && !(bytes.Equal(oldVal, newVal)):
			o["reads"] = "old"
		case has && bytes.Equal(got, newVal):
			o["reads"] = "new"
		default:
			o["reads"] = "other"
		}
		o["others_ok"] = bytes.Equal(after["bystander"], []byte("untouched-value"))
		// listing: nothing but the known keys may show up as an entity / key
		extra := false
		for kk := range after {
			if kk != key && kk != "bystander" && strings.HasSuffix(kk, ".entity") {
				extra = true
			}
		}
		o["temp_listed"] = extra
		o["follow"] = followUps(dir, key, id, k)
		lines = append(lines, o)
	}
	// hook-free variant: the child is killed by strace on entry to each file-system syscall of the operation, so that a
	// rewritten Set whose crash points were lost is still crashed at every syscall boundary
	if sc.Op != "transport" && os.Getenv("HCV_NO_STRACE") == "" {
		sl, sk, err := straceCrashes(self, id, sc, base, prepare)
		if err != nil {
			return nil, 0, err
		}
		lines = append(lines, sl...)
		kills += sk
	}
	return lines, kills, nil
}

// followUps: after the restart the store must still behave like a map for that key (phase "next" of StorageCrash.tla): a
// short value, then a long one, then a short one again are written to the end by a fresh store and read back by another.
func followUps(dir, key string, id, k int) string {
	for n, tok := range []string{"short", "long", "empty", "mid"} {
		st, err := util.NewFileStorage(dir)
		if err != nil {
			return "error: " + err.Error()
		}
		v := valueFor(tok, rngFor(int64(id), 100+10*k+n))
		if err := st.Set(key, v); err != nil {
			return "error: " + err.Error()
		}
		got, has := readAll(dir)[key]
		if !has || !bytes.Equal(got, v) {
			return fmt.Sprintf("other: wrote %d bytes (%s), read %d", len(v), tok, len(got))
		}
	}
	// once more by a process whose temporary file exists already (guard tmp_truncated of StorageCrash.tla: a process with
	// the id of the killed one)
	if self, err := os.Executable(); err == nil && k%4 == 1 {
		v := valueFor("short", rngFor(int64(id), 100+10*k+9))
		vf := dir + ".stale-value"
		os.WriteFile(vf, v, 0644)
		defer os.Remove(vf)
		cmd := exec.Command(self, "storagechild", "--extra", "setstale|"+dir+"|"+key+"|"+vf)
		cmd.Env = append(os.Environ(), "VERIF_CRASH_AT=0")
		if out, err := cmd.CombinedOutput(); err != nil {
			return "error: stale follow-up: " + err.Error() + " " + string(out)
		}
		got, has := readAll(dir)[key]
		if !has || !bytes.Equal(got, v) {
			return fmt.Sprintf("other: wrote %d bytes over a stale temporary file, read %d", len(v), len(got))
		}
	}
	return "next"
}

var crashSyscalls = []string{"openat", "write", "pwrite64", "fsync", "fdatasync", "close", "rename", "renameat", "renameat2", "unlink", "unlinkat", "ftruncate", "link", "linkat"}

// straceCrashes records the file-system syscalls the operation makes in the storage directory (main thread), then re-runs it
// once per syscall with strace injecting SIGKILL on entry to exactly that invocation.
func straceCrashes(self string, id int, sc crashScenario, base string, prepare func(string) (string, []byte, []byte, string, error)) ([]J, int, error) {
	strace, err := exec.LookPath("strace")
	if err != nil {
		return nil, 0, nil // not available: the hook-based enumeration stands alone
	}
	recDir := base + "/srec"
	key, _, _, valFile, err := prepare(recDir)
	if err != nil {
		return nil, 0, err
	}
	logf := base + "/strace.log"
	cmd := exec.Command(strace, "-f", "-o", logf, "-e", "trace="+strings.Join(crashSyscalls, ","), self, "storagechild", "--extra", sc.Op+"|"+recDir+"|"+key+"|"+valFile)
	cmd.Env = append(os.Environ(), "VERIF_CRASH_AT=0")
	if out, err := cmd.CombinedOutput(); err != nil {
		return nil, 0, fmt.Errorf("strace recording run failed: %v %s", err, out)
	}
	logb, err := os.ReadFile(logf)
	if err != nil {
		return nil, 0, err
	}
	// main thread = first pid in the log; count invocations per syscall; the window opens at the first call naming the directory
	type inv struct {
		name string
		k    int
	}
	var window []inv
	counts := map[string]int{}
	mainPid := ""
	open := false
	for _, line := range strings.Split(string(logb), "\n") {
		f := strings.Fields(line)
		if len(f) < 2 {
			continue
		}
		if mainPid == "" {
			mainPid = f[0]
		}
		if f[0] != mainPid {
			continue
		}
		rest := strings.TrimSpace(strings.TrimPrefix(line, f[0]))
		p := strings.Index(rest, "(")
		if p <= 0 || strings.HasPrefix(rest, "<...") || strings.HasPrefix(rest, "+++") || strings.HasPrefix(rest, "---") {
			continue
		}
		name := rest[:p]
		known := false
		for _, c := range crashSyscalls {
			if c == name {
				known = true
			}
		}
		if !known {
			continue
		}
		counts[name]++
		if !open && strings.Contains(rest, recDir+"/") {
			open = true
		}
		if open {
			window = append(window, inv{name, counts[name]})
		}
	}
	if len(window) == 0 {
		// the main goroutine of the child left the main thread in spite of the lock (never seen since the lock is taken
		// during initialisation): the hook-based enumeration of crash points stands alone for this scenario
		fmt.Fprintln(os.Stderr, "note: strace saw no file-system syscall of the main thread in the storage directory; scenario", id)
		return nil, 0, nil
	}
	var lines []J
	kills := 0
	for j, w := range window {
		dir := fmt.Sprintf("%s/srun%d", base, j)
		key, oldVal, newVal, valFile, err := prepare(dir)
		if err != nil {
			return nil, 0, err
		}
		cmd := exec.Command(strace, "-f", "-o", "/dev/null", "-e", "trace="+w.name, "-e", fmt.Sprintf("inject=%s:signal=SIGKILL:when=%d", w.name, w.k),
			self, "storagechild", "--extra", sc.Op+"|"+dir+"|"+key+"|"+valFile)
		cmd.Env = append(os.Environ(), "VERIF_CRASH_AT=0")
		runErr := cmd.Run()
		killed := runErr != nil
		if killed {
			kills++
		}
		after := readAll(dir)
		o := J{"ev": "crash", "case": id, "i": 0, "op": sc.Op, "old": sc.Old, "new": sc.New, "point": fmt.Sprintf("sys:%s#%d", w.name, j+1), "k": j + 1, "key": "target", "killed": killed}
		got, has := after[key]
		switch {
		case !has && sc.Old == "absent":
			o["reads"] = "old"
		case has && sc.Old != "absent" && bytes.Equal(got, oldVal) && !(bytes.Equal(oldVal, newVal)):
			o["reads"] = "old"
		case has && bytes.Equal(got, newVal):
			o["reads"] = "new"
		default:
			o["reads"] = "other"
		}
		o["others_ok"] = bytes.Equal(after["bystander"], []byte("untouched-value"))
		extra := false
		for kk := range after {
			if kk != key && kk != "bystander" && strings.HasSuffix(kk, ".entity") {
				extra = true
			}
		}
		o["temp_listed"] = extra
		o["follow"] = followUps(dir, key, id, 1000+j)
		lines = append(lines, o)
	}
	return lines, kills, nil
}

func wellFormedConfig(key string, v []byte) bool {
	switch key {
	case "uuid":
		return len(v) == 17 && bytes.Count(v, []byte(":")) == 5
	case "version":
		n, err := strconv.Atoi(string(v))
		return err == nil && n >= 1
	case "configHash":
		return len(v) == 16 // md5
	}
	return false
}

func minInt(a, b int) int {
	if a < b {
		return a
	}
	return b
}
