package main

// Family "pairsetup": replays PairSetup.tla behaviours against the real /pair-setup endpoint of a real transport and
// records responses and the pairing store after every message (C02).

import (
	"bytes"
	"encoding/json"
	"fmt"
	"math/big"
	"math/rand"
	"os"
	"sort"
	"strings"
	"sync"
	"time"

	"github.com/brutella/hc/accessory"

	"hcverif/ref"
)

func init() { families["pairsetup"] = pairSetupFamily }

type psMsg struct {
	T     string `json:"t"`
	A     string `json:"A"`
	Proof string `json:"proof"`
	Seal  string `json:"seal"`
	Body  string `json:"body"`
	Shape string `json:"shape"`
	ID    string `json:"id"`
}

type psStep struct {
	C   string `json:"c"`
	M   psMsg  `json:"m"`
	Exp string `json:"exp"`
}

type psWorld struct {
	tr     *Transport
	accID  string
	rng    *rand.Rand
	idents map[string]ref.Identity
	pin    string
	seed   int64
}

type psConn struct {
	c           *ref.Conn
	dead        bool
	salt, B     []byte
	srp         *ref.SRPClient // pending or accepted exchange
	holds       bool           // the peer derived the key of an accepted proof on this connection
	srpK        []byte
	encKey      [32]byte
	recA, recM1 []byte // A and proof of the last ACCEPTED verify on this connection, as sent
	recM5       []byte // encrypted-data item of the last key exchange sent on this connection
	// a complete ACCEPTED exchange on this connection as an eavesdropper recorded it: A, proof, key-exchange box
	tapA, tapM1, tapM5 []byte
	lastBox            []byte
	sentA, sentM1      []byte
}

func newPSWorld(seed int64, k int, pin string) (*psWorld, error) {
	w := &psWorld{rng: rngFor(seed, 2000+k), idents: map[string]ref.Identity{}, pin: pin, seed: seed}
	dir := mkTempDir("hcv-ps")
	sw := accessory.NewSwitch(accessory.Info{Name: "Setup"})
	tr, err := startHTTPServer(dir, pin, sw.Accessory)
	if err != nil {
		return nil, err
	}
	w.tr = tr
	w.accID = tr.AccessoryID()
	return w, nil
}

func (w *psWorld) close() {
	w.tr.Stop()
	os.RemoveAll(w.tr.Dir)
}

func (w *psWorld) ident(id string) ref.Identity {
	if x, ok := w.idents[id]; ok {
		return x
	}
	// controller identifiers: 36-character form or arbitrary UTF-8 of 1..64 bytes
	var name string
	switch w.rng.Intn(5) {
	case 3:
		// names that differ only by bytes a careless normalisation would drop or fold
		base := "Admin-" + id
		name = []string{base + "\x00", " " + base, base + " ", base + "\n", "\t" + base, strings.ToUpper(base), base + "\x00\x00", base + "\u00a0"}[w.rng.Intn(8)]
	case 4:
		name = string([]byte{byte(1 + w.rng.Intn(31))}) + id + string([]byte{0xc3, 0xa9})
	case 0:
		name = fmt.Sprintf("%08X-%04X-%04X-%04X-%012X", w.rng.Uint32(), w.rng.Intn(65536), w.rng.Intn(65536), w.rng.Intn(65536), w.rng.Int63n(1<<48))
	case 1:
		name = "ctrl-" + id + "-é世\U0001F600-" + fmt.Sprint(w.rng.Intn(1000))
	default:
		name = id + strings.Repeat("x", w.rng.Intn(60))
	}
	x := ref.NewIdentity(name, rndFunc(w.rng))
	w.idents[id] = x
	return x
}

func (w *psWorld) storeNames() []string {
	out := []string{}
	for _, e := range w.tr.Entities() {
		if e.Name == w.accID {
			continue
		}
		found := false
		for id, x := range w.idents {
			if x.Name == e.Name {
				// the key delivered for this identity: its own, or the neutral element of a "smallorder" body
				if bytes.Equal(e.PublicKey, x.Pub) || (len(e.PublicKey) == 32 && e.PublicKey[0] == 1 && bytes.Equal(e.PublicKey[1:], make([]byte, 31))) {
					out = append(out, id)
				} else {
					out = append(out, "wrongkey:"+id)
				}
				found = true
			}
		}
		if !found {
			out = append(out, "other:"+e.Name)
		}
	}
	sort.Strings(out)
	return out
}

func (w *psWorld) baseline() {
	for _, e := range w.tr.Entities() {
		if e.Name != w.accID {
			w.tr.DB.DeleteEntity(e)
		}
	}
	w.idents = map[string]ref.Identity{}
}

var srpNBytes = func() []byte { n, _ := new(big.Int).SetString(ref.N3072Hex, 16); return n.Bytes() }()

func (w *psWorld) build(conns map[string]*psConn, name string, cs *psConn, m psMsg) ([]byte, string) {
	rnd := func(n int) []byte { b := make([]byte, n); w.rng.Read(b); return b }
	var t ref.TLV
	switch m.T {
	case "Start":
		t.AddByte(ref.TagState, 1)
		t.AddByte(ref.TagMethod, 0)
	case "BadMethod":
		t.AddByte(ref.TagState, 1)
		t.AddByte(ref.TagMethod, byte(1+w.rng.Intn(5)))
	case "UnknownStep":
		t.AddByte(ref.TagState, []byte{0, 7, 9, 0x42, 0xff}[w.rng.Intn(5)])
	case "Verify":
		t.AddByte(ref.TagState, 3)
		cs.srp = nil
		var proof []byte
		switch m.A {
		case "replay":
			// byte-for-byte replay of A and the proof accepted on another connection
			for n, o := range conns {
				if n != name && o.recA != nil {
					t.Add(ref.TagPublicKey, o.recA)
					proof = o.recM1
				}
			}
			if proof == nil {
				return nil, "no accepted exchange on another connection to replay"
			}
		case "replay_same":
			// byte-for-byte replay of the verify message of the exchange that was accepted earlier on this very connection
			if cs.tapA == nil {
				return nil, "no accepted exchange on this connection to replay"
			}
			t.Add(ref.TagPublicKey, cs.tapA)
			proof = cs.tapM1
		case "good":
			cl := ref.NewSRPClient("Pair-Setup", ref.FormatPin(w.pin), rndFunc(w.rng))
			t.Add(ref.TagPublicKey, cl.Abytes)
			if cs.salt != nil {
				if err := cl.Compute(cs.salt, cs.B); err == nil {
					proof = cl.M1
					cs.srp = cl
				}
			}
		case "zero":
			t.Add(ref.TagPublicKey, make([]byte, 384))
		case "N":
			k := 1 + w.rng.Intn(2)
			t.Add(ref.TagPublicKey, new(big.Int).Mul(new(big.Int).SetBytes(srpNBytes), big.NewInt(int64(k))).Bytes())
		case "missing":
		}
		switch m.Proof {
		case "right":
			if proof == nil {
				proof = rnd(64) // no right proof exists for this A / without an M2
			}
			t.Add(ref.TagProof, proof)
			if a, ok := t.Get(ref.TagPublicKey); ok {
				cs.sentA, cs.sentM1 = a, proof
			}
		case "wrong":
			cs.srp = nil
			t.Add(ref.TagProof, rnd(64))
		case "nilkey":
			// the proof of a session whose key was never set: computable without the setup code
			cs.srp = nil
			if cs.salt == nil {
				t.Add(ref.TagProof, rnd(64))
			} else {
				a, _ := t.Get(ref.TagPublicKey)
				t.Add(ref.TagProof, ref.NilKeyM1("Pair-Setup", cs.salt, a, cs.B))
			}
		case "missing":
			cs.srp = nil
		}
	case "Kex":
		id := w.ident(m.ID)
		var secret []byte
		if m.Seal == "this" {
			if !cs.holds {
				return nil, "the peer holds no key on this connection"
			}
			secret = cs.srpK
		}
		var inner []byte
		switch m.Body {
		case "genuine":
			inner = ref.SubTLV5(secret, id).Encode()
		case "badsig":
			st := ref.SubTLV5(secret, id)
			st[2].Val[w.rng.Intn(64)] ^= 1 << uint(w.rng.Intn(8))
			inner = st.Encode()
		case "mismatch":
			other := ref.NewIdentity(id.Name, rndFunc(w.rng))
			st := ref.SubTLV5(secret, id)
			st[1].Val = other.Pub // delivered key differs from the signing key
			inner = st.Encode()
		case "smallorder":
			// public key = neutral element of the curve, signature = (neutral element, 0): verifies for every message
			neutral := make([]byte, 32)
			neutral[0] = 1
			var st ref.TLV
			st.Add(ref.TagIdentifier, []byte(id.Name))
			st.Add(ref.TagPublicKey, neutral)
			st.Add(ref.TagSignature, append(append([]byte{}, neutral...), make([]byte, 32)...))
			inner = st.Encode()
		case "badtlv":
			inner = []byte{0x01, 0x30, 0x41, 0x42}
		}
		var key []byte
		switch m.Seal {
		case "this":
			key = cs.encKey[:]
		case "zero":
			key = make([]byte, 32)
		case "nilkey":
			k := ref.HKDF(nil, []byte("Pair-Setup-Encrypt-Salt"), []byte("Pair-Setup-Encrypt-Info"))
			key = k[:]
		case "random":
			key = rnd(32)
		case "other":
			key = rnd(32)
			for n, o := range conns {
				if n != name && o.holds {
					key = o.encKey[:]
				}
			}
		}
		var box []byte
		if m.Seal == "recorded" {
			if cs.tapM5 == nil {
				return nil, "no accepted key exchange on this connection to replay"
			}
			box = append([]byte{}, cs.tapM5...)
		} else {
			box = ref.Seal(key, []byte("PS-Msg05"), inner, nil)
		}
		if m.Seal == "other" && m.Body == "genuine" {
			// prefer the very bytes another connection sent in its own key exchange
			for n, o := range conns {
				if n != name && o.recM5 != nil {
					box = append([]byte{}, o.recM5...)
				}
			}
		}
		if m.Seal == "this" && m.Body == "genuine" && m.Shape == "ok" {
			cs.recM5 = append([]byte{}, box...)
		}
		switch m.Shape {
		case "ok":
		case "tagflip":
			box[len(box)-1-w.rng.Intn(16)] ^= 0x80
		case "ctflip":
			box[w.rng.Intn(len(box)-16)] ^= 0x01
		case "short":
			box = rnd(1 + w.rng.Intn(15))
		case "empty":
			box = []byte{}
		}
		t.AddByte(ref.TagState, 5)
		t.Add(ref.TagEncrypted, box)
		cs.lastBox = append([]byte{}, box...)
	default:
		return nil, "unknown message type " + m.T
	}
	return t.Encode(), ""
}

func (w *psWorld) runWord(b Beh, tr *Tracer) error {
	w.rng = rngFor(w.seed, 2000000+b.ID) // every random choice of a case depends on (seed, case id) only
	w.baseline()
	conns := map[string]*psConn{}
	defer func() {
		for _, cs := range conns {
			cs.c.Close()
		}
	}()
	lines := []J{{"ev": "reset", "case": b.ID, "store": w.storeNames()}}
	for i, raw := range b.Steps {
		var st psStep
		if err := json.Unmarshal(raw, &st); err != nil {
			return err
		}
		cs := conns[st.C]
		if cs == nil {
			c, err := ref.Dial(w.tr.Addr)
			if err != nil {
				return err
			}
			cs = &psConn{c: c}
			conns[st.C] = cs
		}
		o := J{"ev": "msg", "case": b.ID, "i": i, "c": st.C, "m": st.M,
			"http": -1, "state": -1, "err": -1, "proof": false, "enc": false, "dropped": false, "holds": false, "skipped": false, "m6ok": false}
		body, why := w.build(conns, st.C, cs, st.M)
		switch {
		case why != "":
			o["skipped"] = true
		case cs.dead:
			o["dropped"] = true
		default:
			m, t, err := cs.c.PostRawTLV("/pair-setup", body)
			if err != nil {
				cs.dead = true
				o["dropped"] = true
				break
			}
			o["http"] = m.Status
			if m.Status == 200 && t != nil {
				o["state"] = t.Byte(ref.TagState)
				o["err"] = 0
				if _, ok := t.Get(ref.TagError); ok {
					o["err"] = t.Byte(ref.TagError)
				}
				_, o["proof"] = t.Get(ref.TagProof)
				_, o["enc"] = t.Get(ref.TagEncrypted)
				switch st.M.T {
				case "Start":
					if s, ok := t.Get(ref.TagSalt); ok {
						if B, ok := t.Get(ref.TagPublicKey); ok && t.Byte(ref.TagState) == 2 {
							cs.salt, cs.B = s, B
						}
					}
				case "Verify":
					if p, ok := t.Get(ref.TagProof); ok && cs.srp != nil && cs.srp.VerifyM2(p) {
						cs.holds = true
						cs.recA, cs.recM1 = cs.sentA, cs.sentM1
						cs.srpK = cs.srp.K
						cs.encKey = ref.HKDF(cs.srp.K, []byte("Pair-Setup-Encrypt-Salt"), []byte("Pair-Setup-Encrypt-Info"))
						o["holds"] = true
					}
				case "Kex":
					if box, ok := t.Get(ref.TagEncrypted); ok && cs.holds {
						if _, err := ref.Open(cs.encKey[:], []byte("PS-Msg06"), box, nil); err == nil {
							o["m6ok"] = true
							if st.M.Seal == "this" && cs.recA != nil {
								cs.tapA, cs.tapM1, cs.tapM5 = cs.recA, cs.recM1, cs.lastBox
							}
						}
					}
				}
			}
			if strings.EqualFold(m.Header["connection"], "close") {
				cs.dead = true
			}
		}
		o["store"] = w.storeNames()
		lines = append(lines, o)
	}
	tr.Block(lines)
	return nil
}

func pairSetupFamily(a *Args) error {
	behs, err := readBehs(a.Beh)
	if err != nil {
		return err
	}
	tr, err := newTracer(a.Trace)
	if err != nil {
		return err
	}
	workers := 8
	if len(behs) < workers {
		workers = 1
	}
	pins := []string{"00102003", "46637726", "03145154", "99999998", "00000001", "12345670", "87654320", "10000000"}
	worlds := make([]*psWorld, workers)
	for k := range worlds {
		w, err := newPSWorld(a.Seed, k, pins[(int(a.Seed)+k)%len(pins)])
		if err != nil {
			return err
		}
		worlds[k] = w
		defer w.close()
	}
	var mu sync.Mutex
	var firstErr error
	var wg sync.WaitGroup
	for k := 0; k < workers; k++ {
		wg.Add(1)
		go func(k int) {
			defer wg.Done()
			for i := k; i < len(behs); i += workers {
				t0 := time.Now()
				err := worlds[k].runWord(behs[i], tr)
				if d := time.Since(t0); d > time.Second && os.Getenv("HCV_SLOW") != "" {
					fmt.Fprintf(os.Stderr, "slow word %d: %v\n", behs[i].ID, d)
				}
				if err != nil {
					mu.Lock()
					if firstErr == nil {
						firstErr = err
					}
					mu.Unlock()
					return
				}
			}
		}(k)
	}
	wg.Wait()
	if firstErr != nil {
		return firstErr
	}
	n, _ := stdPanics.Take()
	fmt.Printf("pairsetup: %d behaviours replayed, %d trace lines, %d handler panics logged\n", len(behs), tr.n, n)
	return tr.Close()
}
