package main

// The constructor catalog (filled by the generated zz_catalog_gen.go).

import (
	"net"
	"reflect"

	"github.com/brutella/hc/characteristic"
)

type catEntry struct {
	name, file, declared string
	hasConst             bool
	mk                   func() interface{}
}

var (
	catChars, catSvcs, catAccs []catEntry
	catSkipped                 []string
)

// safeMake calls a constructor under recover.
func safeMake(e catEntry) (obj interface{}, panicked string) {
	defer func() {
		if r := recover(); r != nil {
			obj, panicked = nil, stringOf(r)
		}
	}()
	return e.mk(), ""
}

func stringOf(r interface{}) string {
	if e, ok := r.(error); ok {
		return e.Error()
	}
	if s, ok := r.(string); ok {
		return s
	}
	return "panic"
}

// baseChar finds the embedded *characteristic.Characteristic of a typed wrapper.
func baseChar(obj interface{}) *characteristic.Characteristic {
	v := reflect.ValueOf(obj)
	for v.IsValid() {
		if c, ok := v.Interface().(*characteristic.Characteristic); ok {
			return c
		}
		if v.Kind() == reflect.Ptr {
			if v.IsNil() {
				return nil
			}
			v = v.Elem()
			continue
		}
		if v.Kind() == reflect.Struct {
			f := v.FieldByName("Characteristic")
			if !f.IsValid() {
				return nil
			}
			v = f
			continue
		}
		return nil
	}
	return nil
}

// typedGet calls the wrapper's GetValue() under recover.
func typedGet(obj interface{}) (val interface{}, panicked bool) {
	defer func() {
		if r := recover(); r != nil {
			val, panicked = nil, true
		}
	}()
	m := reflect.ValueOf(obj).MethodByName("GetValue")
	if !m.IsValid() {
		return nil, false
	}
	out := m.Call(nil)
	if len(out) == 1 {
		return out[0].Interface(), false
	}
	return nil, false
}

type netConn = net.Conn

// reflectField returns the named (possibly embedded) field of a struct pointer, or nil.
func reflectField(obj interface{}, name string) interface{} {
	v := reflect.ValueOf(obj)
	for v.IsValid() && v.Kind() == reflect.Ptr && !v.IsNil() {
		v = v.Elem()
	}
	if !v.IsValid() || v.Kind() != reflect.Struct {
		return nil
	}
	f := v.FieldByName(name)
	if !f.IsValid() || !f.CanInterface() {
		return nil
	}
	return f.Interface()
}
