package main

// Family "honest": the independent reference controller pairs, verifies and talks to hc's real server; for every accessory
// message it logs its symbolic parse (which label / nonce / key opened a box, over which material order a signature
// verified, which items were present) for TLC to compare with the HAP specification's structure (C04).

import (
	"bytes"
	gocontext "context"
	"crypto/ed25519"
	"encoding/json"
	"fmt"
	"math/rand"
	"os"
	"strings"
	"sync"
	"time"

	"github.com/brutella/hc/accessory"
	"github.com/brutella/hc/hap"

	"hcverif/ref"
)

func init() { families["honest"] = honestFamily }

func tagsOf(b []byte) []int {
	t, err := ref.Decode(b)
	if err != nil {
		return []int{-1}
	}
	if tags := t.Tags(); tags != nil {
		return tags
	}
	return []int{} // an empty body: no items (never null in the trace)
}

func randomName(rng *rand.Rand) string {
	switch rng.Intn(4) {
	case 0:
		return fmt.Sprintf("%08X-%04X-%04X-%04X-%012X", rng.Uint32(), rng.Intn(65536), rng.Intn(65536), rng.Intn(65536), rng.Int63n(1<<48))
	case 1:
		return string([]byte{byte('A' + rng.Intn(26))})
	case 2:
		s := "ctrl é世\U0001F600 "
		for len(s) < 60 {
			s += string(rune('a' + rng.Intn(26)))
		}
		r := []rune(s)
		out := string(r[:1+rng.Intn(len(r)-1)])
		for len(out) > 64 {
			r = r[:len(r)-1]
			out = string(r)
		}
		return out
	}
	b := make([]byte, 1+rng.Intn(64))
	for i := range b {
		b[i] = byte(0x21 + rng.Intn(0x5d))
	}
	return string(b)
}

var validPins = []string{"00102003", "46637726", "03145154", "99999998", "00000001", "12345670", "87654320", "10000000", "31415926", "00000010"}

// openUnder tries the nonce strings a box could have been sealed with, under the key the specification prescribes.
func openUnder(key []byte, box []byte, nonces ...string) (string, []byte) {
	for _, n := range nonces {
		if p, err := ref.Open(key, []byte(n), box, nil); err == nil {
			return n, p
		}
	}
	return "none", nil
}

// sigOrder finds the order of the three parts under which the signature verifies.
func sigOrder(pub, sig []byte, parts map[string][]byte, names [3]string) string {
	perms := [][3]int{{0, 1, 2}, {0, 2, 1}, {1, 0, 2}, {1, 2, 0}, {2, 0, 1}, {2, 1, 0}}
	if len(pub) != 32 || len(sig) != 64 {
		return "badsize"
	}
	for _, p := range perms {
		var m []byte
		for _, i := range p {
			m = append(m, parts[names[i]]...)
		}
		if ed25519.Verify(pub, m, sig) {
			return names[p[0]] + "|" + names[p[1]] + "|" + names[p[2]]
		}
	}
	return "none"
}

type honestRun struct {
	id        int
	lines     []J
	firstMode string // "patient" | "immediate" | "pipelined"
}

func (h *honestRun) log(o J) {
	o["ev"], o["case"], o["i"] = "msg", h.id, 0
	h.lines = append(h.lines, o)
}
func (h *honestRun) fail(rule, why string) {
	h.log(J{"name": "fail", "rule": rule, "why": why})
}

func runHonest(b Beh, seed int64, big bool) []J {
	rng := rngFor(seed, 17000000+b.ID)
	h := &honestRun{id: b.ID}
	var st struct {
		Code  string `json:"code"`
		Mode  string `json:"mode"`
		NReq  int    `json:"nreq"`
		Probe bool   `json:"probe"` // a protected request (GET, no body, no length header) on the connection before pair-verify
		RV    int    `json:"rv"`    // pair-verify runs again inside the session, this many times
		KA    bool   `json:"ka"`    // the accessory sends keep-alives (every 200 microseconds) during the whole run
	}
	if len(b.Steps) > 0 {
		json.Unmarshal(b.Steps[0], &st)
	}
	pin := validPins[rng.Intn(len(validPins))]
	if rng.Intn(3) == 0 {
		for {
			pin = fmt.Sprintf("%08d", rng.Intn(100000000))
			if refValidPin(pin) {
				break
			}
		}
	}
	dir := mkTempDir("hcv-honest")
	defer os.RemoveAll(dir)
	sw := accessory.NewSwitch(accessory.Info{Name: "Honest " + randomName(rng)})
	accs := []*accessory.Accessory{sw.Accessory}
	if big {
		for i := 0; i < 60; i++ {
			accs = append(accs, accessory.NewColoredLightbulb(accessory.Info{Name: fmt.Sprintf("Bulb %d", i)}).Accessory)
		}
	}
	tr, err := startHTTPServer(dir, pin, accs...)
	if err != nil {
		h.fail("Setup", err.Error())
		return h.lines
	}
	defer tr.Stop()
	if st.KA {
		kctx, kcancel := gocontext.WithCancel(gocontext.Background())
		defer kcancel()
		go hap.NewKeepAlive(200*time.Microsecond, tr.Ctx).Start(kctx)
	}
	// pre-existing storage contents: other controllers already paired
	for i := 0; i < rng.Intn(3); i++ {
		tr.seedPairing(ref.NewIdentity(randomName(rng), rndFunc(rng)))
	}
	id := ref.NewIdentity(randomName(rng), rndFunc(rng))
	usePin := ref.FormatPin(pin)
	wrongPin := usePin
	for wrongPin == usePin {
		wrongPin = ref.FormatPin(fmt.Sprintf("%08d", rng.Intn(100000000)))
	}
	if st.Code == "wrong" {
		usePin = wrongPin
	}
	// "retry": the user mistypes the code once and enters the right one on the same connection
	typo := st.Code == "retry"
	var reuse *ref.Conn
	stored := func() bool {
		e, err := tr.DB.EntityWithName(id.Name)
		return err == nil && e.Name == id.Name && bytes.Equal(e.PublicKey, id.Pub)
	}
	// ---- pair-setup (new connection per attempt when B is unlucky)
	var sc *ref.SetupClient
	for attempt := 0; ; attempt++ {
		if attempt > 30 {
			h.fail("Setup", "too many redraws")
			return h.lines
		}
		c := reuse
		reuse = nil
		if c == nil {
			var err error
			if c, err = ref.Dial(tr.Addr); err != nil {
				h.fail("Setup", err.Error())
				return h.lines
			}
		}
		thisPin := usePin
		if typo {
			thisPin = wrongPin
		}
		sc = &ref.SetupClient{Pin: thisPin, ID: id, Rnd: rndFunc(rng)}
		m, t, err := c.PostTLV("/pair-setup", sc.M1())
		if err != nil {
			c.Close()
			h.fail("Structure", "M2: "+err.Error())
			return h.lines
		}
		e2 := sc.HandleM2(t)
		if e2 == ref.ErrRedraw || e2 == ref.ErrRedrawB {
			c.Close()
			typo = st.Code == "retry"
			continue
		}
		pub, _ := t.Get(ref.TagPublicKey)
		salt, _ := t.Get(ref.TagSalt)
		h.log(J{"name": "M2", "http": m.Status, "framed": framed(m), "tags": tagsOf(m.Body), "state": t.Byte(ref.TagState), "publen": len(pub), "saltlen": len(salt)})
		if e2 != nil {
			c.Close()
			return h.lines
		}
		m, t, err = c.PostTLV("/pair-setup", sc.M3())
		if err != nil {
			c.Close()
			h.fail("Structure", "M4: "+err.Error())
			return h.lines
		}
		proof, hasproof := t.Get(ref.TagProof)
		if st.Code == "wrong" || typo {
			h.log(J{"name": "M4err", "http": m.Status, "framed": framed(m), "tags": tagsOf(m.Body), "state": t.Byte(ref.TagState), "err": t.Byte(ref.TagError), "hasproof": hasproof, "stored": stored()})
			if typo {
				typo = false
				reuse = c
				continue
			}
			c.Close()
			return h.lines
		}
		h.log(J{"name": "M4", "http": m.Status, "framed": framed(m), "tags": tagsOf(m.Body), "state": t.Byte(ref.TagState), "proofok": hasproof && sc.SRP.VerifyM2(proof)})
		if sc.HandleM4(t) != nil {
			c.Close()
			return h.lines
		}
		m, t, err = c.PostTLV("/pair-setup", sc.M5())
		c.Close()
		if err != nil {
			h.fail("Structure", "M6: "+err.Error())
			return h.lines
		}
		o := J{"name": "M6", "http": m.Status, "framed": framed(m), "tags": tagsOf(m.Body), "state": firstByte(t, ref.TagState), "opens": "none", "inner": []int{}, "sig": "none", "idok": false, "stored": stored()}
		if box, ok := t.Get(ref.TagEncrypted); ok {
			n, plain := openUnder(sc.EncKey[:], box, "PS-Msg06", "PS-Msg05", "PS-Msg04", "PV-Msg02")
			o["opens"] = n
			if in, err := ref.Decode(plain); err == nil && plain != nil {
				o["inner"] = in.Tags()
				aid, _ := in.Get(ref.TagIdentifier)
				ltpk, _ := in.Get(ref.TagPublicKey)
				sig, _ := in.Get(ref.TagSignature)
				x := ref.HKDF(sc.SRP.K, []byte("Pair-Setup-Accessory-Sign-Salt"), []byte("Pair-Setup-Accessory-Sign-Info"))
				o["sig"] = sigOrder(ltpk, sig, map[string][]byte{"x": x[:], "id": aid, "ltpk": ltpk}, [3]string{"x", "id", "ltpk"})
				o["idok"] = string(aid) == tr.AccessoryID()
				sc.AccessoryID, sc.AccessoryLTPK = string(aid), ltpk
			}
		}
		h.log(o)
		if o["sig"] != "x|id|ltpk" || !o["stored"].(bool) {
			return h.lines
		}
		break
	}
	// ---- pair-verify
	c, err := ref.Dial(tr.Addr)
	if err != nil {
		h.fail("Structure", err.Error())
		return h.lines
	}
	defer c.Close()
	c.Timeout = 6 * time.Second
	if st.Probe {
		pm, perr := c.Do("GET", "/accessories", "", nil)
		if perr != nil {
			h.fail("Talk", "request before pair-verify not answered: "+perr.Error())
			return h.lines
		}
		h.log(J{"name": "probe", "http": pm.Status, "framed": framed(pm)})
	}
	vc := &ref.VerifyClient{ID: id, Rnd: rndFunc(rng)}
	m, t, err := c.PostTLV("/pair-verify", vc.V1())
	if err != nil {
		h.fail("Structure", "V2: "+err.Error())
		return h.lines
	}
	apub, _ := t.Get(ref.TagPublicKey)
	o := J{"name": "V2", "nth": 1, "http": m.Status, "framed": framed(m), "tags": tagsOf(m.Body), "state": t.Byte(ref.TagState), "publen": len(apub), "opens": "none", "inner": []int{}, "sig": "none", "idok": false}
	if len(apub) == 32 {
		vc.AccPub = apub
		vc.Shared = vc.Eph.Shared(apub)
		vc.EncKey = ref.HKDF(vc.Shared[:], []byte("Pair-Verify-Encrypt-Salt"), []byte("Pair-Verify-Encrypt-Info"))
		if box, ok := t.Get(ref.TagEncrypted); ok {
			n, plain := openUnder(vc.EncKey[:], box, "PV-Msg02", "PV-Msg03", "PS-Msg06")
			o["opens"] = n
			if in, err := ref.Decode(plain); err == nil && plain != nil {
				o["inner"] = in.Tags()
				aid, _ := in.Get(ref.TagIdentifier)
				sig, _ := in.Get(ref.TagSignature)
				o["sig"] = sigOrder(sc.AccessoryLTPK, sig, map[string][]byte{"accEph": apub, "id": aid, "ctrlEph": vc.Eph.Pub[:]}, [3]string{"accEph", "id", "ctrlEph"})
				o["idok"] = string(aid) == sc.AccessoryID
			}
		}
	}
	h.log(o)
	if o["sig"] != "accEph|id|ctrlEph" {
		return h.lines
	}
	// V3 / V4; the read side is bound to the session already so that a (wrongly) encrypted V4 is still understood
	sess := ref.NewControllerSession(vc.Shared)
	v3 := ref.BuildRequest("POST", "/pair-verify", ref.CTTLV, vc.V3().Encode())
	first := ref.BuildRequest("GET", "/accessories", "", nil)
	if err := c.WriteRaw(v3); err != nil {
		h.fail("Structure", "V3: "+err.Error())
		return h.lines
	}
	if st.Mode == "pipelined" {
		// the first encrypted request travels right behind V3, before V4 has been read
		c.C.Write(sess.SealMessage(first))
	}
	c.Install(sess)
	c.Sess = nil
	// messages the accessory sends of its own accord (keep-alives): framed the way the controller opens them at that point
	logEvents := func(expected string) {
		for _, e := range c.TakeEvents() {
			h.log(J{"name": "event", "framed": framed(e), "expected": expected})
		}
	}
	readResponse := func(expected string) (*ref.Msg, error) {
		for {
			m, err := c.ReadMsg()
			if err != nil || !m.IsEvent() {
				return m, err
			}
			h.log(J{"name": "event", "framed": framed(m), "expected": expected})
		}
	}
	logEvents("plain")
	m, err = readResponse("plain")
	if err != nil {
		h.fail("Structure", "V4: "+err.Error())
		return h.lines
	}
	t, _ = ref.Decode(m.Body)
	h.log(J{"name": "V4", "nth": 1, "http": m.Status, "framed": framed(m), "tags": tagsOf(m.Body), "state": t.Byte(ref.TagState)})
	if t.Byte(ref.TagState) != 4 || t.Count(ref.TagError) > 0 {
		return h.lines
	}
	c.Sess = sess
	// ---- encrypted requests
	switch st.Mode {
	case "patient":
		tr.WaitEncrypted(c.C.LocalAddr().String())
		fallthrough
	case "immediate":
		if err := c.WriteRaw(first); err != nil {
			h.fail("Talk", err.Error())
			return h.lines
		}
	}
	rule := "Talk"
	if st.Mode != "patient" {
		rule = "FirstRequest:" + st.Mode
	}
	c.Timeout = 3 * time.Second
	m, err = readResponse("enc")
	if err != nil {
		h.fail(rule, "first encrypted request not answered: "+err.Error())
		return h.lines
	}
	var doc map[string]interface{}
	bodyok := json.Unmarshal(m.Body, &doc) == nil && doc["accessories"] != nil
	if st.Mode != "patient" && !(m.Status == 200 && m.Enc && bodyok) {
		// the early request was mangled (D16): whatever the server made of it belongs to the same finding
		h.fail(rule, fmt.Sprintf("first encrypted request answered %d %s", m.Status, framed(m)))
		return h.lines
	}
	h.log(J{"name": "resp", "http": m.Status, "want": 200, "framed": framed(m), "bodyok": bodyok, "len": len(m.Body)})
	logEvents("enc")
	for k := 1; k < st.NReq; k++ {
		// request sizes from one frame to many: a PUT with a long list of entries
		n := []int{1, 5, 40, 200, 900}[rng.Intn(5)]
		var items []J
		for i := 0; i < n; i++ {
			items = append(items, J{"aid": 1, "iid": sw.Switch.On.ID, "value": i%2 == 0})
		}
		body, _ := json.Marshal(J{"characteristics": items})
		m, err := c.Do("PUT", "/characteristics", ref.CTJSON, body)
		if err != nil {
			h.fail("Talk", fmt.Sprintf("PUT of %d bytes not answered: %v", len(body), err))
			return h.lines
		}
		h.log(J{"name": "resp", "http": m.Status, "want": 204, "framed": framed(m), "bodyok": sw.Switch.On.GetValue() == ((n-1)%2 == 0), "len": len(body)})
		m, err = c.Do("GET", fmt.Sprintf("/characteristics?id=1.%d", sw.Switch.On.ID), "", nil)
		if err != nil {
			h.fail("Talk", "GET not answered: "+err.Error())
			return h.lines
		}
		h.log(J{"name": "resp", "http": m.Status, "want": 200, "framed": framed(m), "bodyok": strings.Contains(string(m.Body), `"value":`), "len": len(m.Body)})
		logEvents("enc")
	}
	// ---- pair-verify again, inside the session: V2 and V4 travel in the session that is being replaced, everything after V4
	// in the new one
	for nth := 2; nth <= 1+st.RV; nth++ {
		vc := &ref.VerifyClient{ID: id, Rnd: rndFunc(rng)}
		m, t, err := c.PostTLV("/pair-verify", vc.V1())
		if err != nil {
			h.fail("SwitchAtomic", fmt.Sprintf("V2 of verification %d: %v", nth, err))
			return h.lines
		}
		logEvents("enc")
		apub, _ := t.Get(ref.TagPublicKey)
		o := J{"name": "V2", "nth": nth, "http": m.Status, "framed": framed(m), "tags": tagsOf(m.Body), "state": t.Byte(ref.TagState), "publen": len(apub), "opens": "none", "inner": []int{}, "sig": "none", "idok": false}
		if len(apub) == 32 {
			vc.AccPub = apub
			vc.Shared = vc.Eph.Shared(apub)
			vc.EncKey = ref.HKDF(vc.Shared[:], []byte("Pair-Verify-Encrypt-Salt"), []byte("Pair-Verify-Encrypt-Info"))
			if box, ok := t.Get(ref.TagEncrypted); ok {
				n, plain := openUnder(vc.EncKey[:], box, "PV-Msg02", "PV-Msg03", "PS-Msg06")
				o["opens"] = n
				if in, err := ref.Decode(plain); err == nil && plain != nil {
					o["inner"] = in.Tags()
					aid, _ := in.Get(ref.TagIdentifier)
					sig, _ := in.Get(ref.TagSignature)
					o["sig"] = sigOrder(sc.AccessoryLTPK, sig, map[string][]byte{"accEph": apub, "id": aid, "ctrlEph": vc.Eph.Pub[:]}, [3]string{"accEph", "id", "ctrlEph"})
					o["idok"] = string(aid) == sc.AccessoryID
				}
			}
		}
		h.log(o)
		if o["sig"] != "accEph|id|ctrlEph" {
			return h.lines
		}
		// V3 goes out and V4 comes back in the OLD session
		if err := c.WriteRaw(ref.BuildRequest("POST", "/pair-verify", ref.CTTLV, vc.V3().Encode())); err != nil {
			h.fail("SwitchAtomic", "V3: "+err.Error())
			return h.lines
		}
		m, err = readResponse("enc")
		if err != nil {
			h.fail("SwitchAtomic", fmt.Sprintf("V4 of verification %d does not open under the session it replaces: %v", nth, err))
			return h.lines
		}
		t, _ = ref.Decode(m.Body)
		h.log(J{"name": "V4", "nth": nth, "http": m.Status, "framed": framed(m), "tags": tagsOf(m.Body), "state": t.Byte(ref.TagState)})
		if t.Byte(ref.TagState) != 4 || t.Count(ref.TagError) > 0 {
			return h.lines
		}
		// from here on the new session, both ways
		c.Upgrade(vc.Shared)
		m, err = c.Do("GET", fmt.Sprintf("/characteristics?id=1.%d", sw.Switch.On.ID), "", nil)
		if err != nil {
			h.fail("SwitchAtomic", fmt.Sprintf("after verification %d the accessory does not talk in the new session: %v", nth, err))
			return h.lines
		}
		h.log(J{"name": "resp", "http": m.Status, "want": 200, "framed": framed(m), "bodyok": strings.Contains(string(m.Body), `"value":`), "len": len(m.Body)})
		logEvents("enc")
	}
	return h.lines
}

func framed(m *ref.Msg) string {
	if m.Enc {
		return "enc"
	}
	return "plain"
}

// firstByte: the State item as a parser that takes the first item sees it
func firstByte(t ref.TLV, tag byte) int {
	v, ok := t.Get(tag)
	if !ok || len(v) == 0 {
		return -1
	}
	return int(v[0])
}

func honestFamily(a *Args) error {
	behs, err := readBehs(a.Beh)
	if err != nil {
		return err
	}
	tr, err := newTracer(a.Trace)
	if err != nil {
		return err
	}
	var mu sync.Mutex
	n := 0
	parallel(len(behs), 12, func(i int) {
		lines := runHonest(behs[i], a.Seed, i%9 == 0)
		tr.Block(lines)
		mu.Lock()
		n++
		mu.Unlock()
	})
	fmt.Printf("honest: %d runs of the reference controller against the real server, %d trace lines\n", n, tr.n)
	return tr.Close()
}
