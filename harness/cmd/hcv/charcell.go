package main

// Family "charcell": update words from Characteristic.tla applied in-process to every characteristic constructor of the
// library and to synthetic cells with every permission set (C12 typing / range, C11 permissions at the update API).

import (
	"encoding/json"
	"fmt"
	"hash/fnv"
	"math"
	"reflect"
	"sort"
	"strings"
	"sync"

	"github.com/brutella/hc/characteristic"
)

func init() { families["charcell"] = charCellFamily }

type ccStep struct {
	A      string   `json:"a"`
	Cls    string   `json:"cls"`
	Remote bool     `json:"remote"`
	Fmt    string   `json:"fmt"`
	Perms  []string `json:"perms"`
	Bound  bool     `json:"bounded"`
}

type cell struct {
	name string
	mk   func() interface{}
}

func fmtClass(f string) string {
	switch f {
	case characteristic.FormatBool:
		return "bool"
	case characteristic.FormatFloat:
		return "float"
	case characteristic.FormatUInt8, characteristic.FormatUInt16, characteristic.FormatUInt32, characteristic.FormatUInt64, characteristic.FormatInt32:
		return "int"
	case characteristic.FormatString, characteristic.FormatTLV8, characteristic.FormatData:
		return "string"
	}
	return "other:" + f
}

func dynClass(v interface{}) string {
	switch v.(type) {
	case nil:
		return "nil"
	case bool:
		return "bool"
	case int:
		return "int"
	case float64:
		return "float"
	case string:
		return "string"
	}
	return fmt.Sprintf("other:%T", v)
}

func permSet(c *characteristic.Characteristic) []string {
	out := []string{}
	for _, p := range []string{"pr", "pw", "ev"} {
		for _, q := range c.Perms {
			if p == q {
				out = append(out, p)
				break
			}
		}
	}
	return out
}

func has(ps []string, p string) bool {
	for _, q := range ps {
		if p == q {
			return true
		}
	}
	return false
}

// syntheticCells: one cell per format class x permission set x (declared bounds or not)
func syntheticCells() []cell {
	var out []cell
	fmts := []string{characteristic.FormatBool, characteristic.FormatUInt8, characteristic.FormatInt32, characteristic.FormatUInt32, characteristic.FormatFloat, characteristic.FormatString, characteristic.FormatTLV8}
	all := []string{"pr", "pw", "ev"}
	for _, f := range fmts {
		for mask := 0; mask < 8; mask++ {
			var perms []string
			for i, p := range all {
				if mask&(1<<uint(i)) != 0 {
					perms = append(perms, p)
				}
			}
			for _, bounded := range []bool{false, true} {
				f, perms, bounded := f, append([]string{}, perms...), bounded
				if bounded && (fmtClass(f) == "bool" || fmtClass(f) == "string") {
					continue
				}
				name := fmt.Sprintf("synthetic/%s/%s/%v", f, strings.Join(perms, "+"), bounded)
				out = append(out, cell{name: name, mk: func() interface{} {
					switch fmtClass(f) {
					case "bool":
						c := characteristic.NewBool("FFF1")
						c.Perms = perms
						c.SetValue(false)
						return c
					case "int":
						c := characteristic.NewInt("FFF2")
						c.Format = f
						c.Perms = perms
						if bounded {
							c.SetMinValue(10)
							c.SetMaxValue(20)
							c.SetStepValue(1)
						}
						c.SetValue(12)
						return c
					case "float":
						c := characteristic.NewFloat("FFF3")
						c.Format = f
						c.Perms = perms
						if bounded {
							c.SetMinValue(-5.5)
							c.SetMaxValue(40.25)
						}
						c.SetValue(1.5)
						return c
					default:
						if f == characteristic.FormatTLV8 {
							c := characteristic.NewBytes("FFF5")
							c.Perms = perms
							c.SetValue([]byte{1, 2, 3})
							return c
						}
						c := characteristic.NewString("FFF4")
						c.Perms = perms
						c.SetValue("initial")
						return c
					}
				}})
			}
		}
	}
	// characteristics of a format the library has no constant for (HAP's own name "int", no format at all): there is no
	// declared type to hold the value to, but updates must not panic and the database must encode
	for _, f := range []string{"int", ""} {
		f := f
		out = append(out, cell{name: fmt.Sprintf("synthetic/custom-format-%q/pr+pw+ev", f), mk: func() interface{} {
			c := characteristic.NewCharacteristic("FFF6")
			c.Format = f
			c.Perms = []string{"pr", "pw", "ev"}
			c.UpdateValue(1)
			return c
		}})
	}
	return out
}

// numeric anchors of a cell: declared bounds or a default window
func bounds(c *characteristic.Characteristic) (lo, hi float64, declared bool) {
	lo, hi = 0, 100
	switch m := c.MinValue.(type) {
	case int:
		lo, declared = float64(m), true
	case float64:
		lo, declared = m, true
	}
	switch m := c.MaxValue.(type) {
	case int:
		hi, declared = float64(m), true
	case float64:
		hi, declared = m, true
	}
	return
}

// concretise a JSON value class for a cell; remote values look like decoded JSON (float64 numbers), local ones are typed
func concretise(cls string, c *characteristic.Characteristic, remote bool, k int) interface{} {
	lo, hi, _ := bounds(c)
	num := func(x float64) interface{} {
		if remote {
			return x
		}
		switch fmtClass(c.Format) {
		case "int":
			if x == math.Trunc(x) && math.Abs(x) < 1e15 {
				return int(x)
			}
			return x
		}
		return x
	}
	switch cls {
	case "null":
		return nil
	case "true":
		return true
	case "false":
		return false
	case "num_m2":
		return num([]float64{lo - 1000, -2147483649, -9.3e18}[k%3])
	case "num_m1":
		return num(lo - 1)
	case "num_0":
		return num(lo)
	case "num_1":
		return num(hi)
	case "num_2":
		return num(hi + 1)
	case "num_3":
		return num([]float64{1e30, 1.9e19, 4294967296}[k%3])
	case "frac":
		return (lo+hi)/2 + 0.5
	case "numstr":
		return []string{"12", "-20", "1e3", "0x10", "NaN", "1e999", "-Inf", "Infinity"}[k%8]
	case "str":
		return []string{"abc", "tr\"ue\\", "<b>&amp; ", "\U0001F600 é"}[k%4]
	case "emptystr":
		return ""
	case "array":
		return []interface{}{1.0}
	case "object":
		return map[string]interface{}{"a": 1.0}
	}
	return nil
}

// variantsOf: how many representatives concretise has for a class
func variantsOf(cls string) int {
	switch cls {
	case "num_m2", "num_3":
		return 3
	case "numstr":
		return 8
	case "str":
		return 4
	}
	return 1
}

func inRange(c *characteristic.Characteristic) bool {
	switch v := c.Value.(type) {
	case int:
		if m, ok := c.MinValue.(int); ok && v < m {
			return false
		}
		if m, ok := c.MaxValue.(int); ok && v > m {
			return false
		}
	case float64:
		if math.IsNaN(v) || math.IsInf(v, 0) {
			return false
		}
		if m, ok := c.MinValue.(float64); ok && v < m {
			return false
		}
		if m, ok := c.MaxValue.(float64); ok && v > m {
			return false
		}
	}
	return true
}

func runCellWord(b Beh, steps []ccStep, cl cell, k int) []J {
	obj, pan := safeMake(catEntry{mk: cl.mk})
	if pan != "" || obj == nil {
		return []J{{"ev": "upd", "case": b.ID, "i": 0, "cell": cl.name, "fmt": "none", "perms": []string{}, "a": "Construct", "cls": "none", "remote": false,
			"dyn": "nil", "dyn0": "nil", "everchanged": false, "inrange": true, "panic": true, "getpanic": false, "jsonok": true, "cbr": 0, "cbl": 0, "changed": false, "valnil": true, "jsonhasvalue": false}}
	}
	c := baseChar(obj)
	if c == nil {
		return nil
	}
	cbr, cbl := 0, 0
	c.OnValueUpdateFromConn(func(conn netConn, ch *characteristic.Characteristic, n, o interface{}) { cbr++ })
	c.OnValueUpdate(func(ch *characteristic.Characteristic, n, o interface{}) { cbl++ })
	perms := permSet(c)
	dyn0 := dynClass(c.Value)
	init := fmt.Sprintf("%#v", c.Value)
	ever := false
	conn := newScriptConn()
	var lines []J
	for i, s := range steps {
		// a single-step word is executed with every representative of its class, longer words with one chosen by k
		nvar := 1
		if len(steps) == 1 && (s.A == "Update" || s.A == "GetterRead") {
			nvar = variantsOf(s.Cls)
		}
		for vi := 0; vi < nvar; vi++ {
			kk := k + i
			if nvar > 1 {
				kk = vi
			}
			before := fmt.Sprintf("%#v", c.Value)
			cbr, cbl = 0, 0
			o := J{"ev": "upd", "case": b.ID, "i": i, "cell": cl.name, "fmt": fmtClass(c.Format), "perms": perms, "a": s.A, "cls": s.Cls, "remote": s.Remote,
				"panic": false, "getpanic": false, "fmtknown": !strings.HasPrefix(fmtClass(c.Format), "other:")}
			switch s.A {
			case "Update":
				v := concretise(s.Cls, c, s.Remote, kk)
				func() {
					defer func() {
						if r := recover(); r != nil {
							o["panic"] = true
						}
					}()
					if s.Remote {
						c.UpdateValueFromConnection(v, conn)
					} else {
						c.UpdateValue(v)
					}
				}()
			case "GetterRead":
				// the application supplies the value through a getter; a connection (or the application) reads
				v := concretise(s.Cls, c, false, kk)
				func() {
					defer func() {
						if r := recover(); r != nil {
							o["panic"] = true
						}
					}()
					c.OnValueGet(func() interface{} { return v })
					defer c.OnValueGet(nil)
					if s.Remote {
						c.GetValueFromConnection(conn)
					} else {
						c.GetValue()
					}
				}()
			case "Rebound":
				// the application declares another range while the cell holds a value
				lo, hi, _ := bounds(c)
				nlo, nhi := lo-1000, hi+1000
				if s.Cls == "narrow" {
					q := math.Floor((hi - lo) / 4)
					nlo, nhi = lo+q, hi-q
				}
				func() {
					defer func() {
						if r := recover(); r != nil {
							o["panic"] = true
						}
					}()
					for _, mv := range []struct {
						name string
						v    float64
					}{{"SetMinValue", nlo}, {"SetMaxValue", nhi}} {
						m := reflect.ValueOf(obj).MethodByName(mv.name)
						if !m.IsValid() || m.Type().NumIn() != 1 {
							continue
						}
						switch m.Type().In(0).Kind() {
						case reflect.Int:
							m.Call([]reflect.Value{reflect.ValueOf(int(mv.v))})
						case reflect.Float64:
							m.Call([]reflect.Value{reflect.ValueOf(mv.v)})
						}
					}
				}()
			case "TypedGet":
				_, p := typedGet(obj)
				o["getpanic"] = p
			case "Subscribe":
				// permission check for subscriptions lives in the HTTP handler: exercised by the charstack family
			}
			after := fmt.Sprintf("%#v", c.Value)
			if after != init {
				ever = true
			}
			jb, jerr := json.Marshal(c)
			o["dyn"], o["dyn0"], o["everchanged"] = dynClass(c.Value), dyn0, ever
			o["inrange"] = inRange(c)
			o["jsonok"] = jerr == nil
			o["cbr"], o["cbl"] = cbr, cbl
			o["changed"] = before != after
			o["valnil"] = c.Value == nil
			o["jsonhasvalue"] = jerr == nil && strings.Contains(string(jb), `"value":`)
			lines = append(lines, o)
		}
	}
	return lines
}

func charCellFamily(a *Args) error {
	behs, err := readBehs(a.Beh)
	if err != nil {
		return err
	}
	tr, err := newTracer(a.Trace)
	if err != nil {
		return err
	}
	var cells []cell
	for _, e := range catChars {
		e := e
		cells = append(cells, cell{name: e.name, mk: e.mk})
	}
	cells = append(cells, syntheticCells()...)
	sort.Slice(cells, func(i, j int) bool { return cells[i].name < cells[j].name })
	thorough := a.Tier == "thorough"
	only := ""
	if strings.HasPrefix(a.Extra, "cell=") {
		only = strings.TrimPrefix(a.Extra, "cell=")
	}
	var mu sync.Mutex
	nexec := 0
	parallel(len(behs), 16, func(bi int) {
		b := behs[bi]
		var steps []ccStep
		var config *ccStep
		for _, raw := range b.Steps {
			var s ccStep
			if json.Unmarshal(raw, &s) != nil {
				return
			}
			if s.A == "Config" {
				s := s
				config = &s
				continue
			}
			steps = append(steps, s)
		}
		if len(steps) == 0 {
			return
		}
		var lines []J
		n := 0
		for ci, cl := range cells {
			// sampling: every single-step word on every cell; longer words on a seeded share of the cells
			if only != "" {
				if cl.name != only {
					continue
				}
			} else if len(steps) > 1 && !thorough && config == nil {
				h := fnv.New32a()
				fmt.Fprintf(h, "%d/%d/%s", a.Seed, b.ID, cl.name)
				if h.Sum32()%12 != 0 {
					continue
				}
			}
			if config != nil && only == "" {
				// an attack word travels with the cell configuration it needs: synthetic cells of that shape only
				if !strings.HasPrefix(cl.name, "synthetic/") {
					continue
				}
			}
			ls := runCellWord(b, steps, cl, int(a.Seed)+ci)
			if config != nil && only == "" && len(ls) > 0 {
				if ls[0]["fmt"] != config.Fmt || strings.Join(ls[0]["perms"].([]string), "+") != strings.Join(config.Perms, "+") {
					continue
				}
			}
			lines = append(lines, ls...)
			n++
		}
		tr.Block(lines)
		mu.Lock()
		nexec += n
		mu.Unlock()
	})
	fmt.Printf("charcell: %d words x cells executed on %d cells (%d library constructors), %d trace lines\n", nexec, len(cells), len(catChars), tr.n)
	return tr.Close()
}
