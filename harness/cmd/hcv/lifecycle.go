package main

// Families "lifecycle" (C20: start / pair / unpair / value changes / stop / restart of real transports on one storage
// directory) and "setupcode" (C20: ValidatePin and the X-HM setup URI).

import (
	"crypto/sha256"
	"encoding/hex"
	"encoding/json"
	"fmt"
	"math/big"
	"math/rand"
	"os"
	"os/exec"
	"sort"
	"strconv"
	"strings"
	"sync"
	"time"

	"github.com/brutella/hc"
	"github.com/brutella/hc/accessory"
	"github.com/brutella/hc/service"
	"github.com/brutella/hc/util"

	"hcverif/ref"
)

func init() {
	families["lifecycle"] = lifecycleFamily
	families["setupcode"] = setupCodeFamily
}

type lcStep struct {
	A string `json:"a"`
	X string `json:"x"`
}

// build the accessory set of a structure token
// The variant makes the accessory database (and with it the stored configuration hash) different from case to case, so
// that the rules are exercised over many databases and not over two fixed ones; within a case it is fixed.
func lcAccessories(s string, variant int) (*accessory.Accessory, []*accessory.Accessory, *accessory.Switch) {
	sw := accessory.NewSwitch(accessory.Info{Name: "Lifecycle"})
	sw.Switch.On.Description = fmt.Sprintf("variant %d", variant)
	if variant%5 == 4 {
		// the two structures differ in nothing but the id of a bridged accessory, and that id is large (derived from an
		// EUI-64, say): 2^53 and beyond, where neighbouring numbers are one and the same float64
		big := uint64(0x842E14FFFE123456)
		if s == "s2" {
			big++
		}
		lb := accessory.NewLightbulb(accessory.Info{Name: "Bridged", ID: big})
		return sw.Accessory, []*accessory.Accessory{lb.Accessory}, sw
	}
	switch s {
	case "s1":
		return sw.Accessory, nil, sw
	case "s2":
		// structurally different: one more service on the first accessory and a second accessory
		sw.AddService(service.NewLightbulb().Service)
		lb := accessory.NewLightbulb(accessory.Info{Name: "Extra"})
		return sw.Accessory, []*accessory.Accessory{lb.Accessory}, sw
	}
	return sw.Accessory, nil, sw
}

// lcPickVariant chooses the database variant of a case so that the stored configuration hash (16 raw bytes in a file) falls
// into one of the classes that matter for a persisted representation: arbitrary, or beginning / ending with white space
// or with a zero byte.  hc's own ContentHash is used to select the input only, never as an oracle.
func lcPickVariant(rng *rand.Rand, id int) int {
	isWS := func(c byte) bool { return c == ' ' || (c >= 9 && c <= 13) }
	want := id % 6
	which := []string{"s1", "s2"}[(id/6)%2]
	for try := 0; try < 20000; try++ {
		v := rng.Intn(1 << 30)
		if want == 0 {
			return v
		}
		a, as, _ := lcAccessories(which, v)
		c := accessory.NewContainer()
		c.AddAccessory(a)
		for _, x := range as {
			c.AddAccessory(x)
		}
		h := c.ContentHash()
		ok := false
		switch want {
		case 1:
			ok = isWS(h[0])
		case 2:
			ok = isWS(h[len(h)-1])
		case 3:
			ok = h[0] == 0
		case 4:
			ok = h[len(h)-1] == 0
		case 5:
			ok = h[0] == '\n' || h[len(h)-1] == '\n'
		}
		if ok {
			return v
		}
	}
	return rng.Intn(1 << 30)
}

func lcObserve(tr *Transport) J {
	txt := tr.T.VerifTXT()
	cnum, _ := strconv.Atoi(txt["c#"])
	sf, _ := strconv.Atoi(txt["sf"])
	pair := []string{}
	accID := tr.AccessoryID()
	for _, e := range tr.Entities() {
		if e.Name != accID {
			pair = append(pair, e.Name)
		}
	}
	sort.Strings(pair)
	h := sha256.Sum256(tr.AccessoryLTPK())
	return J{"id": txt["id"], "ltpk": hex.EncodeToString(h[:8]), "cnum": cnum, "sf": sf, "pairings": pair, "uuidfile": accID}
}

func runLifecycle(b Beh, seed int64) ([]J, error) {
	rng := rngFor(seed, 11000000+b.ID)
	dir := mkTempDir("hcv-life")
	defer os.RemoveAll(dir)
	ids := map[string]ref.Identity{}
	for _, c := range []string{"a", "b"} {
		ids[c] = ref.NewIdentity("ctrl-"+c, rndFunc(rng))
	}
	variant := lcPickVariant(rng, b.ID)
	var tr *Transport
	var sw *accessory.Switch
	defer func() {
		if tr != nil {
			tr.Stop()
		}
	}()
	// what the controllers know: the accessory key each learned at its pair-setup, and who is paired right now
	learned := map[string][]byte{}
	have := map[string]bool{}
	ident := func(x string) ref.Identity {
		if x == "self" {
			// a controller whose pairing identifier is the accessory's own (advertised) device id
			if _, ok := ids["self"]; !ok {
				ids["self"] = ref.NewIdentity(tr.AccessoryID(), rndFunc(rng))
			}
		}
		return ids[x]
	}
	lines := []J{{"ev": "reset", "case": b.ID}}
	for i, raw := range b.Steps {
		var s lcStep
		if err := json.Unmarshal(raw, &s); err != nil {
			return nil, err
		}
		o := J{"ev": "step", "case": b.ID, "i": i, "a": s.A, "x": s.X, "ok": true, "skipped": false,
			"id": "", "ltpk": "", "cnum": 0, "sf": 0, "pairings": []string{}, "uuidfile": "", "kept": true}
		switch s.A {
		case "start":
			if tr != nil {
				o["skipped"] = true
				break
			}
			a, as, swx := lcAccessories(s.X, variant)
			t, err := startTransport(dir, "00102003", false, a, as...)
			if err != nil {
				return nil, err
			}
			tr, sw = t, swx
		case "stop":
			if tr == nil {
				o["skipped"] = true
				break
			}
			tr.Stop()
			tr = nil
		case "values":
			if tr == nil {
				o["skipped"] = true
				break
			}
			sw.Switch.On.SetValue(!sw.Switch.On.GetValue())
			sw.Info.Name.SetValue(fmt.Sprintf("renamed-%d", rng.Intn(1000)))
		case "killstart":
			// the (first) start runs in a process of its own which is killed at a crash point of its storage writes
			if tr != nil {
				o["skipped"] = true
				break
			}
			self, err := os.Executable()
			if err != nil {
				return nil, err
			}
			k := 1 + rng.Intn(14)
			if n, err := strconv.Atoi(strings.TrimPrefix(s.X, "k")); err == nil && n > 0 {
				k = n
			}
			cmd := exec.Command(self, "storagechild", "--extra", "transport|"+dir+"|Lifecycle")
			cmd.Env = append(os.Environ(), fmt.Sprintf("VERIF_CRASH_AT=%d", k))
			cmd.Run()
			o["point"] = k
		case "pair":
			if tr == nil {
				o["skipped"] = true
				break
			}
			ok := false
			for try := 0; try < 6 && !ok; try++ {
				c, err := ref.Dial(tr.Addr)
				if err != nil {
					return nil, err
				}
				c.Timeout = 8 * time.Second
				sc := &ref.SetupClient{Pin: "001-02-003", ID: ident(s.X), Rnd: rndFunc(rng)}
				err = sc.Run(c)
				c.Close()
				if err == nil {
					ok = true
					if s.X != "self" {
						learned[s.X], have[s.X] = sc.AccessoryLTPK, true
					}
				} else if err != ref.ErrRedraw && err != ref.ErrRedrawB {
					o["err"] = err.Error()
					break
				}
			}
			o["ok"] = ok
		case "unpair":
			if tr == nil {
				o["skipped"] = true
				break
			}
			// a controller removes its own pairing; the pairing named like the accessory is removed by any paired controller
			by := s.X
			if s.X == "self" {
				by = ""
				for _, x := range []string{"a", "b"} {
					if have[x] {
						by = x
						break
					}
				}
				if by == "" {
					o["skipped"] = true
					break
				}
			}
			ltpk := learned[by]
			if ltpk == nil {
				ltpk = tr.AccessoryLTPK()
			}
			c, err := tr.verifiedConn(ids[by], ltpk, rng)
			if err != nil {
				o["ok"] = false
				o["err"] = err.Error()
				break
			}
			c.Timeout = 8 * time.Second
			var t ref.TLV
			t.AddByte(ref.TagState, 1)
			t.AddByte(ref.TagMethod, 4)
			t.Add(ref.TagIdentifier, []byte(ident(s.X).Name))
			m, rt, err := c.PostTLV("/pairings", t)
			good := err == nil && m != nil && m.Status == 200
			if good && rt != nil {
				if _, bad := rt.Get(ref.TagError); bad {
					good = false
				}
			}
			o["ok"] = good
			if good && s.X != "self" {
				delete(have, s.X)
			}
			c.Close()
		default:
			return nil, fmt.Errorf("unknown action %q", s.A)
		}
		if tr != nil {
			for k, v := range lcObserve(tr) {
				o[k] = v
			}
			o["running"] = true
			// black-box face of "keeps its long-term key pair and pairings": every controller that paired and was not removed
			// still completes pair-verify against the accessory key it learned when it paired
			kept := true
			if s.A != "values" && s.A != "stop" {
				for _, x := range []string{"a", "b"} {
					if !have[x] {
						continue
					}
					c, err := tr.verifiedConn(ids[x], learned[x], rng)
					if err != nil {
						kept = false
						o["kepterr"] = x + ": " + err.Error()
						break
					}
					c.Close()
				}
			}
			o["kept"] = kept
		} else {
			o["running"] = false
		}
		lines = append(lines, o)
	}
	return lines, nil
}

func lifecycleFamily(a *Args) error {
	behs, err := readBehs(a.Beh)
	if err != nil {
		return err
	}
	tr, err := newTracer(a.Trace)
	if err != nil {
		return err
	}
	var mu sync.Mutex
	var firstErr error
	parallel(len(behs), 24, func(i int) {
		lines, err := runLifecycle(behs[i], a.Seed)
		if err != nil {
			mu.Lock()
			if firstErr == nil {
				firstErr = fmt.Errorf("case %d: %v", behs[i].ID, err)
			}
			mu.Unlock()
			return
		}
		tr.Block(lines)
	})
	if firstErr != nil {
		return firstErr
	}
	fmt.Printf("lifecycle: %d histories replayed with real transports, %d trace lines\n", len(behs), tr.n)
	return tr.Close()
}

// ---------------------------------------------------------------- setup codes and the setup URI

// decodeXHM is an independent decoder of the X-HM:// payload (base 36, 9 digits, then the 4-character setup id).
func decodeXHM(uri string) (code, category, flags, version, reserved int64, setupID string, ok bool) {
	const p = "X-HM://"
	if !strings.HasPrefix(uri, p) || len(uri) < len(p)+9 {
		return
	}
	digits := uri[len(p) : len(p)+9]
	setupID = uri[len(p)+9:]
	n := new(big.Int)
	if _, good := n.SetString(strings.ToLower(digits), 36); !good {
		return
	}
	v := n.Uint64()
	code = int64(v & 0x7ffffff)
	flags = int64((v >> 27) & 0xf)
	category = int64((v >> 31) & 0xff)
	reserved = int64((v >> 39) & 0xf)
	version = int64((v >> 43) & 0x7)
	ok = true
	return
}

var trivialPins = []string{"00000000", "11111111", "22222222", "33333333", "44444444", "55555555", "66666666", "77777777", "88888888", "99999999", "12345678", "87654321"}

func refValidPin(s string) bool {
	if len(s) != 8 {
		return false
	}
	for i := 0; i < 8; i++ {
		if s[i] < '0' || s[i] > '9' {
			return false
		}
	}
	for _, t := range trivialPins {
		if s == t {
			return false
		}
	}
	return true
}

func codepoints(s string) []int {
	out := []int{}
	for _, b := range []byte(s) {
		out = append(out, int(b))
	}
	return out
}

func setupCodeFamily(a *Args) error {
	tr, err := newTracer(a.Trace)
	if err != nil {
		return err
	}
	rng := rngFor(a.Seed, 12)
	var lines []J
	addPin := func(s string) {
		f, err := hc.ValidatePin(s)
		lines = append(lines, J{"ev": "pin", "case": 1, "i": 0, "chars": codepoints(s), "accepted": err == nil, "formatted": codepoints(f)})
	}
	for _, t := range trivialPins {
		addPin(t)
	}
	for n := 0; n <= 10; n++ {
		addPin(strings.Repeat("7", n)[:n])
		addPin(("0123456789012")[:n])
	}
	for _, s := range []string{"1234567a", "a2345678", "12 45678", "1234-678", "１２３４５６７８", "0010200３", "001020٣4", "+0102003", "-0102003", "0010200\x00", "00102003\n", " 0102003", "0x102003", "1e234567", "००१०२००३"} {
		addPin(s)
	}
	n := 4000
	if a.Tier == "thorough" {
		n = 40000
	}
	for i := 0; i < n; i++ {
		addPin(fmt.Sprintf("%08d", rng.Intn(100000000)))
	}
	for i := 0; i < 500; i++ {
		b := make([]byte, 6+rng.Intn(5))
		for k := range b {
			b[k] = "0123456789 -a"[rng.Intn(13)]
		}
		addPin(string(b))
	}
	// setup URI: all categories x all flag sets x boundary codes, plus random
	codes := []int{1, 102003, 99999998, 134217727 % 100000000, 10000000, 67108864, 67108863}
	flagsets := [][]util.SetupFlag{}
	for m := 0; m < 16; m++ {
		var fs []util.SetupFlag
		for _, f := range []util.SetupFlag{util.SetupFlagNFC, util.SetupFlagIP, util.SetupFlagBTLE, util.SetupFlagIPWAC} {
			if m&int(f) != 0 {
				fs = append(fs, f)
			}
		}
		flagsets = append(flagsets, fs)
	}
	addURI := func(code int, cat int, fs []util.SetupFlag, sid string) {
		pin := fmt.Sprintf("%08d", code)
		uri, err := util.XHMURI(pin, sid, uint8(cat), fs)
		want := 0
		for _, f := range fs {
			want |= int(f)
		}
		c, ca, fl, ver, res, gotSid, ok := decodeXHM(uri)
		lines = append(lines, J{"ev": "uri", "case": 2, "i": 0, "code": code, "cat": cat, "flags": want, "err": err != nil, "decoded": ok,
			"dcode": int(c), "dcat": int(ca), "dflags": int(fl), "dver": int(ver), "dres": int(res), "sidok": gotSid == sid, "len": len(uri)})
	}
	for cat := 0; cat < 256; cat++ {
		for m, fs := range flagsets {
			addURI(codes[(cat+m)%len(codes)], cat, fs, "HOME")
		}
	}
	for i := 0; i < n; i++ {
		addURI(rng.Intn(100000000), rng.Intn(256), flagsets[rng.Intn(16)], []string{"HOME", "7OSX", "ABCD", "0000"}[rng.Intn(4)])
	}
	sweep := 0
	if a.Tier == "thorough" || a.Extra == "sweep" {
		// all 10^8 eight-digit codes: ValidatePin against the reference predicate and XHMURI decode-back
		bad := int64(0)
		var mu sync.Mutex
		samples := []string{}
		parallel(100, 16, func(chunk int) {
			lo := chunk * 1000000
			localBad := 0
			buf := make([]byte, 8)
			for v := lo; v < lo+1000000; v++ {
				x := v
				for k := 7; k >= 0; k-- {
					buf[k] = byte('0' + x%10)
					x /= 10
				}
				s := string(buf)
				_, err := hc.ValidatePin(s)
				good := (err == nil) == refValidPin(s)
				if good && v%7 == chunk%7 { // the URI for a seventh of the codes (the packing does not depend on validity)
					uri, uerr := util.XHMURI(s, "HOME", uint8(v%256), []util.SetupFlag{util.SetupFlagIP})
					c, ca, fl, _, _, _, ok := decodeXHM(uri)
					good = uerr == nil && ok && int(c) == v && int(ca) == v%256 && fl == 2
				}
				if !good {
					localBad++
					mu.Lock()
					if len(samples) < 5 {
						samples = append(samples, s)
					}
					mu.Unlock()
				}
			}
			mu.Lock()
			bad += int64(localBad)
			mu.Unlock()
		})
		sweep = 100000000
		lines = append(lines, J{"ev": "sweep", "case": 3, "i": 0, "n": 100000000 / 1000, "bad": int(bad), "samples": samples})
	}
	tr.Block(lines)
	fmt.Printf("setupcode: %d recorded evaluations, full sweep over %d codes\n", len(lines), sweep)
	return tr.Close()
}

var _ = rand.Int
