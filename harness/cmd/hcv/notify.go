package main

// Family "notify": replays Notify.tla behaviours (connect / close / subscribe / unsubscribe / local set / remote write)
// with three verified reference controllers against a real transport; EVENT messages are attributed to the action
// that caused them by fencing every open connection with its own request/response (C10).

import (
	"encoding/json"
	"fmt"
	"math/rand"
	"os"
	"sort"
	"strings"
	"sync"
	"sync/atomic"
	"time"

	"github.com/brutella/hc/accessory"
	"github.com/brutella/hc/characteristic"
	"github.com/brutella/hc/hap"

	"hcverif/ref"
)

func init() { families["notify"] = notifyFamily }

type ntStep struct {
	A  string `json:"a"`
	C  string `json:"c"`
	D  string `json:"d"` // the second writer of a RemoteRace
	Ch string `json:"ch"`
	V  int    `json:"v"`
}

type ntChar struct {
	aid uint64
	ch  *characteristic.Characteristic
	set func(v int)
	get func() int

	// the application's own callbacks (registered before the transport's): they record every change, and - when armed -
	// answer the change to `trigger` by setting the value back (a momentary switch)
	mu      sync.Mutex
	changes []int
	armed   bool
	trigger int
	back    int
	mid     int
}

func (c *ntChar) onChange(nv interface{}) {
	v := jsonTo01(nv)
	if n, ok := nv.(int); ok {
		v = n
	}
	c.mu.Lock()
	c.changes = append(c.changes, v)
	fire := c.armed && v == c.trigger
	if fire {
		c.armed = false
		c.mid = c.get()
	}
	back := c.back
	c.mu.Unlock()
	if fire {
		c.set(back)
	}
}

func (c *ntChar) hook() {
	c.ch.OnValueUpdate(func(ch *characteristic.Characteristic, nv, ov interface{}) { c.onChange(nv) })
	c.ch.OnValueUpdateFromConn(func(conn netConn, ch *characteristic.Characteristic, nv, ov interface{}) { c.onChange(nv) })
}

type ntWorld struct {
	tr    *Transport
	rng   *rand.Rand
	ids   map[string]ref.Identity
	chars map[string]*ntChar
	ltpk  []byte
	seed  int64
}

type ntConn struct {
	c     *ref.Conn
	local string
}

func newNTWorld(seed int64, k int) (*ntWorld, error) {
	w := &ntWorld{seed: seed, rng: rngFor(seed, 3000+k), ids: map[string]ref.Identity{}, chars: map[string]*ntChar{}}
	dir := mkTempDir("hcv-notify")
	sw := accessory.NewSwitch(accessory.Info{Name: "NotifyBridge"})
	lb := accessory.NewColoredLightbulb(accessory.Info{Name: "NotifyBulb"})
	lb.Lightbulb.Brightness.Perms = []string{characteristic.PermRead, characteristic.PermWrite} // z: no event permission
	b2i := func(b bool) int {
		if b {
			return 1
		}
		return 0
	}
	w.chars["x"] = &ntChar{aid: sw.ID, ch: sw.Switch.On.Characteristic, set: func(v int) { sw.Switch.On.SetValue(v == 1) }, get: func() int { return b2i(sw.Switch.On.GetValue()) }}
	w.chars["y"] = &ntChar{aid: lb.ID, ch: lb.Lightbulb.On.Characteristic, set: func(v int) { lb.Lightbulb.On.SetValue(v == 1) }, get: func() int { return b2i(lb.Lightbulb.On.GetValue()) }}
	w.chars["z"] = &ntChar{aid: lb.ID, ch: lb.Lightbulb.Brightness.Characteristic, set: func(v int) { lb.Lightbulb.Brightness.SetValue(v) }, get: func() int { return lb.Lightbulb.Brightness.GetValue() }}
	// the application registers its callbacks first, the transport adds its own when it is created
	for _, c := range w.chars {
		c.hook()
	}
	tr, err := startTransport(dir, "00102003", false, sw.Accessory, lb.Accessory)
	if err != nil {
		return nil, err
	}
	w.tr = tr
	for _, c := range w.chars {
		c.aid = map[bool]uint64{true: sw.ID, false: lb.ID}[c.ch == sw.Switch.On.Characteristic]
	}
	for _, n := range []string{"c1", "c2", "c3"} {
		id := ref.NewIdentity("controller-"+n, rndFunc(w.rng))
		w.ids[n] = id
		if err := tr.seedPairing(id); err != nil {
			return nil, err
		}
	}
	w.ltpk = tr.AccessoryLTPK()
	return w, nil
}

func (w *ntWorld) close() {
	w.tr.Stop()
	os.RemoveAll(w.tr.Dir)
}

func (w *ntWorld) charName(aid, iid uint64) string {
	for n, c := range w.chars {
		if c.aid == aid && c.ch.ID == iid {
			return n
		}
	}
	return fmt.Sprintf("%d.%d", aid, iid)
}

func jsonTo01(v interface{}) int {
	switch x := v.(type) {
	case bool:
		if x {
			return 1
		}
		return 0
	case float64:
		return int(x)
	}
	return -1
}

// events parses EVENT bodies into "ch|v" strings.
func (w *ntWorld) events(ms []*ref.Msg) []string {
	var out []string
	for _, m := range ms {
		var body struct {
			Characteristics []struct {
				Aid   uint64      `json:"aid"`
				Iid   uint64      `json:"iid"`
				Value interface{} `json:"value"`
			} `json:"characteristics"`
		}
		if err := json.Unmarshal(m.Body, &body); err != nil || len(body.Characteristics) == 0 {
			out = append(out, "malformed")
			continue
		}
		for _, c := range body.Characteristics {
			out = append(out, fmt.Sprintf("%s|%d", w.charName(c.Aid, c.Iid), jsonTo01(c.Value)))
		}
	}
	return out
}

func (w *ntWorld) sessionGone(local string) bool {
	return sessionOf(w.tr.Ctx, local) == nil
}

func (w *ntWorld) put(cs *ntConn, item J) (int, int) {
	b, _ := json.Marshal(J{"characteristics": []J{item}})
	m, err := cs.c.Do("PUT", "/characteristics", ref.CTJSON, b)
	if err != nil {
		return -1, 0
	}
	status := 0
	var body struct {
		Characteristics []struct {
			Status int `json:"status"`
		} `json:"characteristics"`
	}
	if json.Unmarshal(m.Body, &body) == nil && len(body.Characteristics) > 0 {
		status = body.Characteristics[0].Status
	}
	return m.Status, status
}

var ntAppPanics int64

type writeGate struct {
	entered, release chan struct{}
	once             sync.Once
}

var (
	gateMu sync.Mutex
	gates  = map[*hap.Connection]*writeGate{}
)

func notifyEnterHook(con *hap.Connection) {
	gateMu.Lock()
	g := gates[con]
	gateMu.Unlock()
	if g == nil {
		return
	}
	first := false
	g.once.Do(func() { first = true })
	if first {
		close(g.entered)
		<-g.release
	}
}

func (w *ntWorld) runWord(b Beh, tr *Tracer) error {
	w.rng = rngFor(w.seed, 3000000+b.ID)
	for _, c := range w.chars {
		c.set(0)
	}
	conns := map[string]*ntConn{}
	defer func() {
		for _, cs := range conns {
			cs.c.Close()
		}
		for _, cs := range conns {
			for i := 0; i < 500 && !w.sessionGone(cs.local); i++ {
				time.Sleep(time.Millisecond)
			}
		}
	}()
	vals := func() J { return J{"x": w.chars["x"].get(), "y": w.chars["y"].get(), "z": w.chars["z"].get()} }
	lines := []J{{"ev": "reset", "case": b.ID, "val": vals()}}
	for i, raw := range b.Steps {
		var st ntStep
		if err := json.Unmarshal(raw, &st); err != nil {
			return err
		}
		o := J{"ev": "act", "case": b.ID, "i": i, "a": st.A, "c": st.C, "d": st.D, "ch": st.Ch, "v": st.V, "http": -1, "status": 0, "skipped": false, "panic": false}
		cs := conns[st.C]
		needConn := st.A == "During" || (st.A == "Nested" && st.C != "app") || st.A == "RemoteRace" || st.A == "Close" || st.A == "Sub" || st.A == "Unsub" || st.A == "Remote" || st.A == "Getter" || st.A == "LocalRace" || st.A == "RemoteSub" || st.A == "RemoteUnsub"
		if needConn && cs == nil {
			o["skipped"] = true
		} else {
			switch st.A {
			case "Connect":
				if cs != nil {
					o["skipped"] = true
					break
				}
				c, err := w.tr.verifiedConn(w.ids[st.C], w.ltpk, w.rng)
				if err != nil {
					return fmt.Errorf("case %d: %v", b.ID, err)
				}
				cs = &ntConn{c: c, local: c.C.LocalAddr().String()}
				conns[st.C] = cs
			case "Close":
				cs.c.Close()
				for k := 0; k < 1000 && !w.sessionGone(cs.local); k++ {
					time.Sleep(time.Millisecond)
				}
				o["gone"] = w.sessionGone(cs.local)
				delete(conns, st.C)
			case "Sub", "Unsub":
				ch := w.chars[st.Ch]
				o["http"], o["status"] = w.put(cs, J{"aid": ch.aid, "iid": ch.ch.ID, "ev": st.A == "Sub"})
			case "Remote":
				ch := w.chars[st.Ch]
				var v interface{} = st.V
				if st.Ch != "z" {
					v = st.V == 1
				}
				o["http"], o["status"] = w.put(cs, J{"aid": ch.aid, "iid": ch.ch.ID, "value": v})
			case "RemoteRace":
				// two controllers write the same new value at the same time: one of the writes is the change
				other := conns[st.D]
				if other == nil {
					o["skipped"] = true
					break
				}
				ch := w.chars[st.Ch]
				var v interface{} = st.V
				if st.Ch != "z" {
					v = st.V == 1
				}
				var wg sync.WaitGroup
				start := make(chan struct{})
				for _, x := range []*ntConn{cs, other} {
					wg.Add(1)
					go func(x *ntConn) {
						defer wg.Done()
						<-start
						w.put(x, J{"aid": ch.aid, "iid": ch.ch.ID, "value": v})
					}(x)
				}
				close(start)
				wg.Wait()
			case "Getter":
				// the application answers this connection's read through a getter installed for the duration of the read
				ch := w.chars[st.Ch]
				var v interface{} = st.V
				if st.Ch != "z" {
					v = st.V == 1
				}
				ch.ch.OnValueGet(func() interface{} { return v })
				m, err := cs.c.Do("GET", fmt.Sprintf("/characteristics?id=%d.%d", ch.aid, ch.ch.ID), "", nil)
				ch.ch.OnValueGet(nil)
				if err == nil && m != nil {
					o["http"] = m.Status
				}
			case "RemoteSub", "RemoteUnsub":
				// one PUT entry carrying both a value and ev
				ch := w.chars[st.Ch]
				var v interface{} = st.V
				if st.Ch != "z" {
					v = st.V == 1
				}
				o["http"], o["status"] = w.put(cs, J{"aid": ch.aid, "iid": ch.ch.ID, "value": v, "ev": st.A == "RemoteSub"})
			case "During":
				// a request of this connection is in flight (its handler waits inside a getter of another characteristic)
				// while the application changes the value three times
				ch := w.chars[st.Ch]
				other := w.chars["z"]
				if st.Ch == "z" {
					other = w.chars["x"]
				}
				entered, release := make(chan struct{}, 1), make(chan struct{})
				keep := other.ch.Value
				other.ch.OnValueGet(func() interface{} {
					select {
					case entered <- struct{}{}:
					default:
					}
					<-release
					return keep
				})
				done := make(chan error, 1)
				go func() {
					_, err := cs.c.Do("GET", fmt.Sprintf("/characteristics?id=%d.%d", other.aid, other.ch.ID), "", nil)
					done <- err
				}()
				inflight := false
				select {
				case <-entered:
					inflight = true
				case <-time.After(3 * time.Second):
				}
				cur := ch.get()
				for _, v := range []int{1 - cur, cur, 1 - cur} {
					ch.set(v)
				}
				close(release)
				select {
				case <-done:
				case <-time.After(5 * time.Second):
				}
				other.ch.OnValueGet(nil)
				o["inflight"] = inflight
			case "Nested":
				// the application's callback answers the change to st.V by setting the value back
				ch := w.chars[st.Ch]
				ch.mu.Lock()
				ch.armed, ch.trigger, ch.back, ch.mid = true, st.V, ch.get(), -1
				ch.mu.Unlock()
				if st.C == "app" {
					func() {
						defer func() {
							if r := recover(); r != nil {
								o["panic"] = true
								atomic.AddInt64(&ntAppPanics, 1)
							}
						}()
						ch.set(st.V)
					}()
				} else {
					var v interface{} = st.V
					if st.Ch != "z" {
						v = st.V == 1
					}
					o["http"], o["status"] = w.put(cs, J{"aid": ch.aid, "iid": ch.ch.ID, "value": v})
				}
				ch.mu.Lock()
				o["mid"] = ch.mid
				ch.armed = false
				ch.mu.Unlock()
			case "LocalPair":
				// two goroutines of the application: one sets the other value, one sets the current value
				ch := w.chars[st.Ch]
				cur := ch.get()
				ch.mu.Lock()
				ch.changes = nil
				ch.mu.Unlock()
				var wg sync.WaitGroup
				start := make(chan struct{})
				for _, v := range []int{1 - cur, cur} {
					wg.Add(1)
					go func(v int) {
						defer wg.Done()
						defer func() {
							if r := recover(); r != nil {
								atomic.AddInt64(&ntAppPanics, 1)
							}
						}()
						<-start
						ch.set(v)
					}(v)
				}
				close(start)
				wg.Wait()
				ch.mu.Lock()
				o["two"] = len(ch.changes) == 2
				o["mid"] = -1
				if len(ch.changes) > 0 {
					o["mid"] = ch.changes[0]
				}
				ch.mu.Unlock()
				o["v"] = 1 - cur
			case "Local":
				func() {
					defer func() {
						if r := recover(); r != nil {
							o["panic"] = true
							atomic.AddInt64(&ntAppPanics, 1)
						}
					}()
					w.chars[st.Ch].set(st.V)
				}()
			case "LocalRace":
				// the application changes the value while the connection closes: the notifying goroutine is parked
				// by the verif gate inside EncryptedWrite (after Write found an encrypter), the connection is closed and
				// its session removed, then the writer is released
				ch := w.chars[st.Ch]
				var target *hap.Connection
				if sess := sessionOf(w.tr.Ctx, cs.local); sess != nil {
					target, _ = sess.Connection().(*hap.Connection)
				}
				g := &writeGate{entered: make(chan struct{}), release: make(chan struct{})}
				if target != nil {
					gateMu.Lock()
					gates[target] = g
					gateMu.Unlock()
				}
				done := make(chan bool, 1)
				go func() {
					panicked := false
					defer func() { done <- panicked }()
					defer func() {
						if r := recover(); r != nil {
							panicked = true
						}
					}()
					ch.set(st.V)
				}()
				parked := false
				var panicked bool
				select {
				case <-g.entered:
					parked = true
				case panicked = <-done:
				}
				cs.c.Close()
				for k := 0; k < 2000 && !w.sessionGone(cs.local); k++ {
					time.Sleep(200 * time.Microsecond)
				}
				// whoever reached the gate (the notifying goroutine, or the connection's own goroutine writing a notification
				// that was held back) is released now
				close(g.release)
				if parked {
					panicked = <-done
				}
				if target != nil {
					gateMu.Lock()
					delete(gates, target)
					gateMu.Unlock()
				}
				o["parked"] = parked
				if panicked {
					o["panic"] = true
					atomic.AddInt64(&ntAppPanics, 1)
				}
				delete(conns, st.C)
			default:
				return fmt.Errorf("unknown action %q", st.A)
			}
		}
		// fence: every open connection answers one request; EVENTs that arrived before the answer belong to this action
		got := []string{}
		seqs := J{"c1": []string{}, "c2": []string{}, "c3": []string{}}
		fenceErr := []string{}
		for _, n := range sortedKeys(conns) {
			oc := conns[n]
			m, err := oc.c.Do("GET", fmt.Sprintf("/characteristics?id=%d.%d", w.chars["x"].aid, w.chars["x"].ch.ID), "", nil)
			if err != nil || m.Status != 200 {
				fenceErr = append(fenceErr, n)
			}
			evs := w.events(oc.c.TakeEvents())
			for _, e := range evs {
				got = append(got, n+"|"+e)
			}
			if evs != nil {
				seqs[n] = evs // in the order of arrival on this connection
			}
		}
		sort.Strings(got)
		o["seqs"] = seqs
		o["got"], o["fenceErr"], o["open"], o["val"] = got, fenceErr, sortedKeys(conns), vals()
		lines = append(lines, o)
	}
	tr.Block(lines)
	return nil
}

func sortedKeys(m map[string]*ntConn) []string {
	out := make([]string, 0, len(m))
	for k := range m {
		out = append(out, k)
	}
	sort.Strings(out)
	return out
}

func notifyFamily(a *Args) error {
	behs, err := readBehs(a.Beh)
	if err != nil {
		return err
	}
	tr, err := newTracer(a.Trace)
	if err != nil {
		return err
	}
	workers := 12
	if len(behs) < workers {
		workers = 1
	}
	worlds := make([]*ntWorld, workers)
	for k := range worlds {
		w, err := newNTWorld(a.Seed, k)
		if err != nil {
			return err
		}
		worlds[k] = w
		defer w.close()
	}
	var mu sync.Mutex
	var firstErr error
	var wg sync.WaitGroup
	for k := 0; k < workers; k++ {
		wg.Add(1)
		go func(k int) {
			defer wg.Done()
			for i := k; i < len(behs); i += workers {
				if err := worlds[k].runWord(behs[i], tr); err != nil {
					mu.Lock()
					if firstErr == nil {
						firstErr = err
					}
					mu.Unlock()
					return
				}
			}
		}(k)
	}
	wg.Wait()
	if firstErr != nil {
		return firstErr
	}
	n, s := stdPanics.Take()
	fmt.Printf("notify: %d behaviours replayed, %d trace lines, %d handler panics logged, %d application-side panics %s\n", len(behs), tr.n, n, atomic.LoadInt64(&ntAppPanics), strings.SplitN(s, "\n", 2)[0])
	return tr.Close()
}
