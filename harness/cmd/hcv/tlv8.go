package main

// Family "tlv8": util.tlv8Container against the reference codec and TLC's Parse / Get operators (C16).

import (
	"bytes"
	"encoding/json"
	"fmt"
	"io"
	"sync"

	"github.com/brutella/hc/util"

	"hcverif/ref"
)

func init() { families["tlv8"] = tlv8Family }

type tlSet struct {
	Tag int `json:"tag"`
	N   int `json:"n"`
	Len int `json:"len"` // explicit real length (sweep); -1 = derive from the model length N
}

// model length (fragment size 3) -> real length (fragment size 255)
func realLen(n int) int { return (n/3)*255 + []int{0, 1, 254}[n%3] }

func intsOf(b []byte) []int {
	out := make([]int, len(b))
	for i, x := range b {
		out[i] = int(x)
	}
	return out
}

func runTLVWord(b Beh, seed int64) []J {
	rng := rngFor(seed, 18000000+b.ID)
	c := util.NewTLV8Container()
	want := map[byte][]byte{}
	prev := 0
	var lines []J
	for i, raw := range b.Steps {
		var s tlSet
		s.Len = -1
		if json.Unmarshal(raw, &s) != nil {
			continue
		}
		n := s.Len
		if n < 0 {
			n = realLen(s.N)
		}
		v := make([]byte, n)
		rng.Read(v)
		tag := byte(s.Tag)
		o := J{"ev": "set", "case": b.ID, "i": i, "tag": s.Tag, "len": n, "panic": false, "frags": []int{}, "roundtrip": false, "refval": false}
		func() {
			defer func() {
				if r := recover(); r != nil {
					o["panic"] = true
				}
			}()
			c.SetBytes(tag, v)
		}()
		want[tag] = append(want[tag], v...)
		// the container holds what was set: the caller's buffer is the caller's again after the call (it is reused here)
		keep := append([]byte{}, v...)
		for k := range v {
			v[k] ^= 0xa5
		}
		v = keep
		ser := c.BytesBuffer().Bytes()
		// the items this set appended, parsed by the reference reader
		frags := []int{}
		if its, err := ref.RawItems(ser[prev:]); err == nil {
			for _, it := range its {
				frags = append(frags, len(it.Val))
			}
			// a standard parser reassembles exactly the value (fragments of 255 continue, the last one ends it)
			if t, err := ref.Decode(ser[prev:]); err == nil {
				if n == 0 {
					o["refval"] = len(t) == 0 || (len(t) == 1 && len(t[0].Val) == 0)
				} else {
					o["refval"] = len(t) >= 1 && t[0].Tag == tag && bytes.Equal(t[0].Val, v) && (len(t) == 1 || (len(t) == 2 && len(t[1].Val) == 0))
				}
			}
		} else {
			frags = append(frags, -1)
		}
		prev = len(ser)
		o["frags"] = frags
		// hc's own reparse returns the same bytes for every tag set so far
		// ... however the reader delivers the serialisation (at once, byte by byte, in two pieces, last piece together with EOF)
		rt := true
		for _, pol := range tlvDeliveries {
			c2, err := util.NewTLV8ContainerFromReader(tlvReader(ser, pol))
			if err != nil {
				rt = false
				o["failed_delivery"] = pol
				break
			}
			for tg, w := range want {
				if !bytes.Equal(c2.GetBytes(tg), w) || !bytes.Equal(c.GetBytes(tg), w) {
					rt = false
					o["failed_delivery"] = pol
				}
				// the other accessors: the value as a string, its first byte (0 when there is none)
				for _, cc := range []util.Container{c, c2} {
					gb, gs, pan := tlvAccessors(cc, tg)
					wb := byte(0)
					if len(w) > 0 {
						wb = w[0]
					}
					if pan || gb != wb || gs != string(w) {
						rt = false
						o["failed_delivery"], o["failed_accessor"] = pol, true
					}
				}
			}
		}
		o["roundtrip"] = rt
		lines = append(lines, o)
	}
	return lines
}

// tlvAccessors reads a tag through GetByte and GetString; a panic is an observation.
func tlvAccessors(c util.Container, tag byte) (b byte, str string, panicked bool) {
	defer func() {
		if r := recover(); r != nil {
			panicked = true
		}
	}()
	return c.GetByte(tag), c.GetString(tag), false
}

var tlvDeliveries = []string{"whole", "one_byte", "halves", "data_with_eof"}

func tlvReader(b []byte, policy string) io.Reader {
	if policy == "whole" {
		return bytes.NewReader(b)
	}
	return &chunkReader{data: append([]byte{}, b...), policy: policy}
}

func parseLine(id, i int, in []byte) J {
	pol := tlvDeliveries[(i/4)%len(tlvDeliveries)]
	o := J{"ev": "parse", "case": id, "i": i, "in": intsOf(in), "ok": false, "panic": false, "tags": []int{}, "vals": [][]int{}, "firsts": []int{}, "strs": [][]int{}, "delivery": pol}
	func() {
		defer func() {
			if r := recover(); r != nil {
				o["panic"] = true
			}
		}()
		c, err := util.NewTLV8ContainerFromReader(tlvReader(in, pol))
		if err != nil {
			return
		}
		o["ok"] = true
		seen := map[byte]bool{}
		tags := []int{}
		vals := [][]int{}
		firsts := []int{}
		strs := [][]int{}
		for k := 0; k+1 < len(in) && len(tags) < 6; k++ {
			t := in[k]
			if !seen[t] {
				seen[t] = true
				tags = append(tags, int(t))
				vals = append(vals, intsOf(c.GetBytes(t)))
				firsts = append(firsts, int(c.GetByte(t)))
				strs = append(strs, intsOf([]byte(c.GetString(t))))
			}
		}
		// a tag that does not occur
		for t := 0; t < 256; t++ {
			if !bytes.Contains(in, []byte{byte(t)}) {
				tags = append(tags, t)
				vals = append(vals, intsOf(c.GetBytes(byte(t))))
				firsts = append(firsts, int(c.GetByte(byte(t))))
				strs = append(strs, intsOf([]byte(c.GetString(byte(t)))))
				break
			}
		}
		o["tags"], o["vals"], o["firsts"], o["strs"] = tags, vals, firsts, strs
	}()
	return o
}

func tlv8Family(a *Args) error {
	behs, err := readBehs(a.Beh)
	if err != nil {
		return err
	}
	tr, err := newTracer(a.Trace)
	if err != nil {
		return err
	}
	var mu sync.Mutex
	nset := 0
	parallel(len(behs), 16, func(i int) {
		ls := runTLVWord(behs[i], a.Seed)
		tr.Block(ls)
		mu.Lock()
		nset += len(ls)
		mu.Unlock()
	})
	// parser inputs: random bytes, prefixes of valid serialisations, damaged length bytes
	n := 3000
	if a.Tier == "thorough" {
		n = 100000
	}
	if a.N > 0 {
		n = a.N
	}
	rng := rngFor(a.Seed, 19)
	var lines []J
	for i := 0; i < n; i++ {
		var in []byte
		switch i % 4 {
		case 0:
			in = make([]byte, rng.Intn(48))
			rng.Read(in)
		case 1: // small alphabet: many well-formed strings
			in = make([]byte, rng.Intn(24))
			for k := range in {
				in[k] = byte(rng.Intn(4))
			}
		default:
			var t ref.TLV
			for k := 0; k < 1+rng.Intn(4); k++ {
				v := make([]byte, rng.Intn(12))
				rng.Read(v)
				t.Add(byte(rng.Intn(5)), v)
			}
			in = t.Encode()
			if i%4 == 2 && len(in) > 0 {
				in = in[:rng.Intn(len(in)+1)] // cut anywhere
			} else if len(in) > 1 {
				in[1+rng.Intn(len(in)-1)] ^= byte(1 << uint(rng.Intn(8)))
			}
		}
		if len(in) > 64 {
			in = in[:64]
		}
		lines = append(lines, parseLine(2000000, i, in))
	}
	tr.Block(lines)
	fmt.Printf("tlv8: %d containers (%d sets) serialised and reparsed, %d byte strings parsed\n", len(behs), nset, n)
	return tr.Close()
}
