package main

// Family "catalog": every exported constructor of the characteristic, service and accessory packages is called under
// recover and dumped as one record per object (C15).

import (
	"fmt"
	"reflect"
	"sort"
	"strconv"

	"github.com/brutella/hc/accessory"
	"github.com/brutella/hc/service"
)

func init() { families["catalog"] = catalogFamily }

func numStr(v interface{}) (string, bool) {
	switch x := v.(type) {
	case int:
		return strconv.Itoa(x), true
	case float64:
		return strconv.FormatFloat(x, 'g', -1, 64), true
	case nil:
		return "", false
	}
	return fmt.Sprintf("%v", v), true
}

func serviceBase(obj interface{}) *service.Service {
	if s, ok := obj.(*service.Service); ok {
		return s
	}
	if f := reflectField(obj, "Service"); f != nil {
		if s, ok := f.(*service.Service); ok {
			return s
		}
	}
	return nil
}

func catalogFamily(a *Args) error {
	tr, err := newTracer(a.Trace)
	if err != nil {
		return err
	}
	var lines []J
	for _, e := range catChars {
		obj, pan := safeMake(e)
		o := J{"ev": "ctor-char", "case": 1, "i": 0, "name": e.name, "file": e.file, "panic": pan != "", "type": "", "declared": e.declared, "hasconst": e.hasConst,
			"format": "", "perms": []string{}, "unit": "", "min": "", "max": "", "step": "", "hasmin": false, "hasmax": false, "hasstep": false,
			"readable": false, "valclass": "nil", "fmtclass": "", "inrange": true}
		if c := baseChar(obj); c != nil && pan == "" {
			perms := permSet(c)
			sort.Strings(perms)
			o["type"], o["format"], o["perms"], o["unit"] = c.Type, c.Format, perms, c.Unit
			o["min"], o["hasmin"] = numStr(c.MinValue)
			o["max"], o["hasmax"] = numStr(c.MaxValue)
			o["step"], o["hasstep"] = numStr(c.StepValue)
			o["readable"] = has(perms, "pr")
			o["valclass"], o["fmtclass"], o["inrange"] = dynClass(c.Value), fmtClass(c.Format), inRange(c)
			// bounds must have the Go type of the format
			if c.MinValue != nil && dynClass(c.MinValue) != fmtClass(c.Format) || c.MaxValue != nil && dynClass(c.MaxValue) != fmtClass(c.Format) {
				o["inrange"] = false
			}
		} else if pan == "" {
			o["panic"] = true
		}
		lines = append(lines, o)
	}
	for _, e := range catSvcs {
		obj, pan := safeMake(e)
		o := J{"ev": "ctor-svc", "case": 2, "i": 0, "name": e.name, "file": e.file, "panic": pan != "", "type": "", "declared": e.declared, "hasconst": e.hasConst, "chartypes": []string{}, "nilchars": false}
		if s := serviceBase(obj); s != nil && pan == "" {
			o["type"] = s.Type
			ts := []string{}
			for _, c := range s.Characteristics {
				if c == nil {
					o["nilchars"] = true
					continue
				}
				ts = append(ts, c.Type)
			}
			o["chartypes"] = ts
			// every exported characteristic field of the typed service must be set
			v := reflect.ValueOf(obj)
			if v.Kind() == reflect.Ptr {
				v = v.Elem()
			}
			for i := 0; v.Kind() == reflect.Struct && i < v.NumField(); i++ {
				f := v.Field(i)
				if f.Kind() == reflect.Ptr && f.IsNil() {
					o["nilchars"] = true
				}
			}
		} else if pan == "" {
			o["panic"] = true
		}
		lines = append(lines, o)
	}
	for _, e := range catAccs {
		obj, pan := safeMake(e)
		o := J{"ev": "ctor-acc", "case": 3, "i": 0, "name": e.name, "file": e.file, "panic": pan != "", "services": 0, "addable": false, "inrange": true}
		if ab := accessoryBase(obj); ab != nil && pan == "" {
			o["services"] = len(ab.Services)
			// every value the constructor stored lies within the range the constructor declared
			for _, sv := range ab.Services {
				for _, ch := range sv.Characteristics {
					if !inRange(ch) {
						o["inrange"] = false
						o["outofrange"] = fmt.Sprintf("%s: value %v, range [%v, %v]", ch.Type, ch.Value, ch.MinValue, ch.MaxValue)
					}
				}
			}
			func() {
				defer func() {
					if r := recover(); r != nil {
						o["panic"] = true
					}
				}()
				c := accessory.NewContainer()
				o["addable"] = c.AddAccessory(ab) == nil
			}()
		} else if pan == "" {
			o["panic"] = true
		}
		lines = append(lines, o)
	}
	tr.Block(lines)
	fmt.Printf("catalog: %d characteristic, %d service, %d accessory constructors called; not callable: %v\n", len(catChars), len(catSvcs), len(catAccs), catSkipped)
	return tr.Close()
}
