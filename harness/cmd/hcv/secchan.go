package main

// Families "secchan" (C05: adversary streams against hc's Decrypt and hap.Connection.Read) and "framing" (C06: hc's Encrypt
// against the reference framing, for every payload length and source-reader chunking).

import (
	"bufio"
	"bytes"
	"encoding/binary"
	"encoding/json"
	"fmt"
	"io"
	"io/ioutil"
	"math/rand"
	"strings"
	"sync"

	hccrypto "github.com/brutella/hc/crypto"

	"hcverif/ref"
)

func init() {
	families["secchan"] = secchanFamily
	families["framing"] = framingFamily
}

type scItem struct {
	Sess string `json:"sess"`
	Dir  string `json:"dir"`
	Idx  int    `json:"idx"`
	Alt  string `json:"alt"`
}

// frame material for one (session, direction): the frames as the honest sender produced them
type scFrames struct {
	plain [][]byte
	wire  [][]byte
}

var scSizes = []int{1, 7, 64, 1023, 1024}

func scMake(key []byte, n int, rng *rand.Rand, sizes []int) scFrames {
	var f scFrames
	for i := 0; i < n; i++ {
		p := make([]byte, sizes[i%len(sizes)])
		rng.Read(p)
		f.plain = append(f.plain, p)
		f.wire = append(f.wire, ref.SealFrame(key, uint64(i), p))
	}
	return f
}

// flipField flips one bit inside the given field of a frame: field offsets: len [0,2), ct [2,2+n), tag [2+n, end)
func flipField(frame []byte, field string, bit int) []byte {
	out := append([]byte{}, frame...)
	n := len(frame) - 18
	var lo, hi int
	switch field {
	case "len":
		lo, hi = 0, 2
	case "ct":
		lo, hi = 2, 2+n
	case "tag":
		lo, hi = 2+n, len(frame)
	}
	if hi <= lo { // empty ciphertext: fall back to the tag
		lo, hi = 2+n, len(frame)
	}
	nbits := (hi - lo) * 8
	b := bit % nbits
	out[lo+b/8] ^= 1 << uint(b%8)
	return out
}

func fieldBits(frame []byte, field string) int {
	n := len(frame) - 18
	switch field {
	case "len":
		return 16
	case "ct":
		if n == 0 {
			return 128
		}
		return n * 8
	}
	return 128
}

// decryptAll feeds the stream to hc's Decrypt until it is exhausted or an error is reported.
// okEnd is the stream offset up to which calls that reported success had consumed the stream.
func decryptAll(c hccrypto.Cryptographer, stream []byte) (released []byte, okEnd int, err error) {
	r := bytes.NewReader(stream)
	for r.Len() > 0 {
		out, e := c.Decrypt(r)
		if e != nil {
			return released, okEnd, e
		}
		okEnd = len(stream) - r.Len()
		b, _ := ioutil.ReadAll(out)
		released = append(released, b...)
	}
	return released, okEnd, nil
}

func secchanFamily(a *Args) error {
	behs, err := readBehs(a.Beh)
	if err != nil {
		return err
	}
	tr, err := newTracer(a.Trace)
	if err != nil {
		return err
	}
	thorough := a.Tier == "thorough"
	var mu sync.Mutex
	var firstErr error
	nstreams := 0
	parallel(len(behs), 16, func(i int) {
		b := behs[i]
		rng := rngFor(a.Seed, 4000000+b.ID)
		wire := []scItem{}
		for _, raw := range b.Steps {
			var it scItem
			if err := json.Unmarshal(raw, &it); err != nil {
				mu.Lock()
				firstErr = err
				mu.Unlock()
				return
			}
			wire = append(wire, it)
		}
		maxIdx := 0
		for _, it := range wire {
			if it.Idx > maxIdx {
				maxIdx = it.Idx
			}
		}
		// two sessions, both directions, as an honest peer (the reference implementation) produced them
		var secrets [2][32]byte
		rng.Read(secrets[0][:])
		rng.Read(secrets[1][:])
		sizes := append([]int{}, scSizes...)
		rng.Shuffle(len(sizes), func(x, y int) { sizes[x], sizes[y] = sizes[y], sizes[x] })
		mat := map[string]scFrames{}
		for si, sname := range []string{"this", "other"} {
			cs := ref.NewControllerSession(secrets[si])
			mat[sname+"/fwd"] = scMake(cs.WriteKey[:], maxIdx, rng, sizes) // controller -> accessory
			mat[sname+"/rev"] = scMake(cs.ReadKey[:], maxIdx, rng, sizes)  // accessory -> controller, reflected
		}
		// which altered item gets the bit sweep
		altAt := -1
		for k, it := range wire {
			if it.Alt == "len" || it.Alt == "ct" || it.Alt == "tag" {
				altAt = k
				break
			}
		}
		variants := 1
		if altAt >= 0 {
			fr := mat[wire[altAt].Sess+"/"+wire[altAt].Dir].wire[wire[altAt].Idx-1]
			nb := fieldBits(fr, wire[altAt].Alt)
			switch {
			case wire[altAt].Alt == "len":
				variants = 16 // every single-bit flip of the length field (one of them may zero it)
			case thorough && len(wire) <= 2 && nb <= 128:
				variants = nb // every single-bit flip of that field
			case thorough:
				variants = 6
			default:
				variants = 2
			}
		}
		var lines []J
		for v := 0; v < variants; v++ {
			var stream []byte
			offs := []int{}
			for k, it := range wire {
				fr := mat[it.Sess+"/"+it.Dir].wire[it.Idx-1]
				switch it.Alt {
				case "len", "ct", "tag":
					bit := rng.Intn(1 << 20)
					if k == altAt {
						bit = v
						if variants <= 6 {
							bit = rng.Intn(1 << 20)
						}
					} else if it.Alt == "len" {
						// a second altered length: clear the highest set bit of the 16-bit length (zeroes powers of two)
						n := len(fr) - 18
						for hb := 15; hb >= 0; hb-- {
							if n&(1<<uint(hb)) != 0 {
								bit = hb
								break
							}
						}
					}
					fr = flipField(fr, it.Alt, bit)
				case "cut":
					fr = fr[:1+rng.Intn(len(fr)-1)]
				case "zero":
					fr = make([]byte, 18) // length 0, forged tag
					rng.Read(fr[2:])
				}
				offs = append(offs, len(stream))
				stream = append(stream, fr...)
				if it.Alt == "cut" {
					break // the stream ends inside this frame
				}
			}
			// the receiver: hc's accessory-side session for secret "this"
			c, err := hccrypto.NewSecureSessionFromSharedKey(secrets[0])
			if err != nil {
				mu.Lock()
				firstErr = err
				mu.Unlock()
				return
			}
			for len(offs) < len(wire) {
				offs = append(offs, len(stream))
			}
			released, okEnd, derr := decryptAll(c, stream)
			// which prefix of the sent plaintexts is it?
			sent := mat["this/fwd"].plain
			nrel, relok := 0, true
			rest := released
			for len(rest) > 0 {
				if nrel >= len(sent) || len(rest) < len(sent[nrel]) || !bytes.Equal(rest[:len(sent[nrel])], sent[nrel]) {
					relok = false
					break
				}
				rest = rest[len(sent[nrel]):]
				nrel++
			}
			lines = append(lines, J{"ev": "stream", "case": b.ID, "i": len(wire) - 1, "v": v, "level": "decrypt", "wire": wire, "nrel": nrel, "relok": relok, "err": derr != nil, "offs": offs, "okend": okEnd})
			// second delivery: frame by frame, as hap.Connection hands them over, and the receiver keeps being called after
			// an error (nothing that follows an altered frame may be released either)
			if v == 0 {
				c2, err := hccrypto.NewSecureSessionFromSharedKey(secrets[0])
				if err != nil {
					mu.Lock()
					firstErr = err
					mu.Unlock()
					return
				}
				var rel2 []byte
				anyErr := false
				okEnd2 := 0
				// the receiver frames the stream by the length prefixes, as hap.Connection.peekFrame does
				pos := 0
				for pos+2 <= len(stream) {
					l := int(binary.LittleEndian.Uint16(stream[pos:]))
					end := pos + 2 + l + 16
					if end > len(stream) {
						anyErr = true // the frame never completes: the read fails when the stream ends
						break
					}
					out, e := c2.Decrypt(bytes.NewReader(stream[pos:end]))
					pos = end
					if e != nil {
						anyErr = true
						continue
					}
					bb, _ := ioutil.ReadAll(out)
					rel2 = append(rel2, bb...)
					if !anyErr {
						okEnd2 = end
					}
				}
				if pos < len(stream) && !anyErr {
					anyErr = true // a length prefix that never completes
				}
				n2, ok2 := 0, true
				rest2 := rel2
				for len(rest2) > 0 {
					if n2 >= len(sent) || len(rest2) < len(sent[n2]) || !bytes.Equal(rest2[:len(sent[n2])], sent[n2]) {
						ok2 = false
						break
					}
					rest2 = rest2[len(sent[n2]):]
					n2++
				}
				lines = append(lines, J{"ev": "stream", "case": b.ID, "i": len(wire) - 1, "v": v, "level": "frames", "wire": wire, "nrel": n2, "relok": ok2, "err": anyErr, "offs": offs, "okend": okEnd2})
			}
		}
		// delivery through a real hap.Connection (what the HTTP server reads from): the whole stream arrives, the server
		// reads until the connection ends, and goes on reading after an error (nothing may come out any more)
		{
			var stream []byte
			offs := []int{}
			for _, it := range wire {
				fr := mat[it.Sess+"/"+it.Dir].wire[it.Idx-1]
				switch it.Alt {
				case "len", "ct", "tag":
					fr = flipField(fr, it.Alt, rng.Intn(1<<20))
				case "cut":
					fr = fr[:1+rng.Intn(len(fr)-1)]
				case "zero":
					fr = make([]byte, 18)
					rng.Read(fr[2:])
				}
				offs = append(offs, len(stream))
				stream = append(stream, fr...)
				if it.Alt == "cut" {
					break
				}
			}
			for len(offs) < len(wire) {
				offs = append(offs, len(stream))
			}
			sc := newScriptConn()
			if hcConn, err := encryptedConnection(sc, secrets[0]); err == nil {
				sc.deliver(stream)
				sc.Close()
				var rel []byte
				anyErr := false
				ends := 0
				buf := make([]byte, 4096)
				for k := 0; k < len(wire)+6 && ends < 3; k++ {
					n, rerr := func() (n int, err error) {
						defer func() {
							if r := recover(); r != nil {
								err = fmt.Errorf("panic: %v", r)
							}
						}()
						return hcConn.Read(buf)
					}()
					if n > 0 {
						rel = append(rel, buf[:n]...)
					}
					if rerr != nil {
						if rerr == io.EOF || strings.Contains(rerr.Error(), "closed") {
							ends++ // the end of the stream
						} else {
							anyErr = true
						}
					}
				}
				// a stream that ends inside a frame is an error as well (the read of that frame never completes)
				pos := 0
				for pos+2 <= len(stream) {
					end := pos + 2 + int(binary.LittleEndian.Uint16(stream[pos:])) + 16
					if end > len(stream) {
						break
					}
					pos = end
				}
				if pos < len(stream) {
					anyErr = true
				}
				sent := mat["this/fwd"].plain
				n4, ok4 := 0, true
				rest := rel
				for len(rest) > 0 {
					if n4 >= len(sent) || len(rest) < len(sent[n4]) || !bytes.Equal(rest[:len(sent[n4])], sent[n4]) {
						ok4 = false
						break
					}
					rest = rest[len(sent[n4]):]
					n4++
				}
				okEnd4 := len(stream)
				if n4 < len(offs) {
					okEnd4 = offs[n4]
				}
				lines = append(lines, J{"ev": "stream", "case": b.ID, "i": len(wire) - 1, "v": 0, "level": "conn", "wire": wire, "nrel": n4, "relok": ok4, "err": anyErr, "offs": offs, "okend": okEnd4})
				hcConn.Close()
			}
		}
		// third delivery: a cut does not end the attack. The items up to and including a cut frame arrive in one piece (and
		// that read ends there); what follows on the wire arrives afterwards. Once with frames of mixed sizes and once with
		// full frames only (hc's Decrypt goes on reading after a full frame, so that several frames share one call).
		cutInside := false
		for k, it := range wire {
			if it.Alt == "cut" && k < len(wire)-1 {
				cutInside = true
			}
		}
		if cutInside {
			full := []int{1024}
			for _, sz := range [][]int{sizes, full} {
				m2 := map[string]scFrames{}
				for si, sname := range []string{"this", "other"} {
					cs := ref.NewControllerSession(secrets[si])
					m2[sname+"/fwd"] = scMake(cs.WriteKey[:], maxIdx, rng, sz)
					m2[sname+"/rev"] = scMake(cs.ReadKey[:], maxIdx, rng, sz)
				}
				var segs [][]byte
				var cur []byte
				offs := []int{}
				total := 0
				for _, it := range wire {
					fr := m2[it.Sess+"/"+it.Dir].wire[it.Idx-1]
					switch it.Alt {
					case "len", "ct", "tag":
						fr = flipField(fr, it.Alt, rng.Intn(1<<20))
					case "cut":
						fr = fr[:1+rng.Intn(len(fr)-1)]
					case "zero":
						fr = make([]byte, 18)
						rng.Read(fr[2:])
					}
					offs = append(offs, total)
					total += len(fr)
					cur = append(cur, fr...)
					if it.Alt == "cut" {
						segs = append(segs, cur)
						cur = nil
					}
				}
				if len(cur) > 0 {
					segs = append(segs, cur)
				}
				c3, err := hccrypto.NewSecureSessionFromSharedKey(secrets[0])
				if err != nil {
					mu.Lock()
					firstErr = err
					mu.Unlock()
					return
				}
				var rel3 []byte
				anyErr := false
				okEnd3, base := 0, 0
				for _, seg := range segs {
					r := bytes.NewReader(seg)
					for r.Len() > 0 {
						out, e := c3.Decrypt(r)
						if e != nil {
							anyErr = true
							break // the rest of this piece is lost with the failed read
						}
						bb, _ := ioutil.ReadAll(out)
						rel3 = append(rel3, bb...)
						if !anyErr {
							okEnd3 = base + len(seg) - r.Len()
						}
					}
					base += len(seg)
				}
				sent := m2["this/fwd"].plain
				n3, ok3 := 0, true
				rest3 := rel3
				for len(rest3) > 0 {
					if n3 >= len(sent) || len(rest3) < len(sent[n3]) || !bytes.Equal(rest3[:len(sent[n3])], sent[n3]) {
						ok3 = false
						break
					}
					rest3 = rest3[len(sent[n3]):]
					n3++
				}
				level := "pieces"
				if len(sz) == 1 {
					level = "pieces-full"
				}
				lines = append(lines, J{"ev": "stream", "case": b.ID, "i": len(wire) - 1, "v": 0, "level": level, "wire": wire, "nrel": n3, "relok": ok3, "err": anyErr, "offs": offs, "okend": okEnd3})
			}
		}
		tr.Block(lines)
		mu.Lock()
		nstreams += variants
		mu.Unlock()
	})
	if firstErr != nil {
		return firstErr
	}
	fmt.Printf("secchan: %d abstract streams, %d concrete streams delivered to hc's Decrypt\n", len(behs), nstreams)
	return tr.Close()
}

// ---------------------------------------------------------------- framing (C06)

type chunkReader struct {
	data   []byte
	policy string
	calls  int
}

func (r *chunkReader) Read(p []byte) (int, error) {
	r.calls++
	if len(r.data) == 0 {
		return 0, io.EOF
	}
	n := len(p)
	switch r.policy {
	case "one_byte":
		n = 1
	case "halves":
		if r.calls == 1 && len(r.data) > 1 {
			n = len(r.data) / 2
		}
	}
	if n > len(r.data) {
		n = len(r.data)
	}
	if n > len(p) {
		n = len(p)
	}
	copy(p, r.data[:n])
	r.data = r.data[n:]
	if r.policy == "data_with_eof" && len(r.data) == 0 {
		return n, io.EOF
	}
	return n, nil
}

type frMsg struct {
	Len   int    `json:"len"`
	Chunk string `json:"chunk"`
}

func framingFamily(a *Args) error {
	behs, err := readBehs(a.Beh)
	if err != nil {
		return err
	}
	tr, err := newTracer(a.Trace)
	if err != nil {
		return err
	}
	var mu sync.Mutex
	var firstErr error
	nmsgs := 0
	parallel(len(behs), 16, func(i int) {
		b := behs[i]
		rng := rngFor(a.Seed, 5000000+b.ID)
		var shared [32]byte
		rng.Read(shared[:])
		hcAcc, err1 := hccrypto.NewSecureSessionFromSharedKey(shared)       // hc as accessory: sender under test
		hcCtl, err2 := hccrypto.NewSecureClientSessionFromSharedKey(shared) // hc as controller: opens hc's own output
		hcAcc2, err3 := hccrypto.NewSecureSessionFromSharedKey(shared)      // hc as accessory: opens the reference's output
		if err1 != nil || err2 != nil || err3 != nil {
			mu.Lock()
			firstErr = fmt.Errorf("session setup failed")
			mu.Unlock()
			return
		}
		refAcc := ref.NewAccessorySession(shared)  // reference sender (same role as hcAcc)
		refCtl := ref.NewControllerSession(shared) // reference receiver of hc's output / reference controller sender
		var lines []J
		for k, raw := range b.Steps {
			var m frMsg
			if err := json.Unmarshal(raw, &m); err != nil {
				mu.Lock()
				firstErr = err
				mu.Unlock()
				return
			}
			payload := make([]byte, m.Len)
			rng.Read(payload)
			ctr0 := int(refAcc.WriteCtr)
			out, eerr := hcAcc.Encrypt(&chunkReader{data: append([]byte{}, payload...), policy: m.Chunk})
			var hcBytes []byte
			if eerr == nil {
				hcBytes, _ = ioutil.ReadAll(out)
			}
			refBytes := refAcc.SealMessage(payload)
			// parse hc's output with the reference reader: frame lengths and the counters under which they open
			frames := []int{}
			ctrs := []int{}
			rd := bytes.NewReader(hcBytes)
			for rd.Len() > 0 {
				c := int(refCtl.ReadCtr)
				p, err := refCtl.OpenFrame(rd)
				if err != nil {
					frames = append(frames, -1)
					break
				}
				frames = append(frames, len(p))
				ctrs = append(ctrs, c)
			}
			// keep the reference receiver aligned with the reference sender whatever hc did
			refCtl.ReadCtr = refAcc.WriteCtr
			// hc's Decrypt of hc's own bytes and of the reference controller's bytes
			rt, _, _ := decryptAll(hcCtl, hcBytes)
			ctlBytes := refCtl.SealMessage(payload)
			dr, _, derr := decryptAll(hcAcc2, ctlBytes)
			lines = append(lines, J{"ev": "enc", "case": b.ID, "i": k, "n": m.Len, "chunk": m.Chunk, "ctr0": ctr0,
				"frames": frames, "ctrs": ctrs, "sameAsRef": eerr == nil && bytes.Equal(hcBytes, refBytes),
				"roundtrip": bytes.Equal(rt, payload), "decOfRef": derr == nil && bytes.Equal(dr, payload),
				"lenLE": len(hcBytes) < 2 || int(binary.LittleEndian.Uint16(hcBytes[:2])) == firstLen(m.Len)})
		}
		// the same messages written into a real hap.Connection the way net/http writes responses: through a buffered
		// writer (4096 bytes) on top of the connection, which relies on Write returning how much of ITS argument was
		// taken; a reference controller session opens what reaches the socket
		var shared2 [32]byte
		rng.Read(shared2[:])
		sc := newScriptConn()
		if hcConn, err := encryptedConnection(sc, shared2); err == nil {
			refPeer := ref.NewControllerSession(shared2)
			for k, raw := range b.Steps {
				var m frMsg
				json.Unmarshal(raw, &m)
				payload := make([]byte, m.Len)
				rng.Read(payload)
				sc.mu.Lock()
				sc.written.Reset()
				sc.mu.Unlock()
				o := J{"ev": "conn", "case": b.ID, "i": k, "n": m.Len, "chunk": m.Chunk, "panic": false, "count": -1, "same": false, "direct": -1}
				func() {
					defer func() {
						if r := recover(); r != nil {
							o["panic"] = true
						}
					}()
					if m.Chunk == "one_byte" || m.Len == 0 {
						// written in one call, without a buffer in between
						n, err := hcConn.Write(payload)
						if err == nil {
							o["direct"] = n
						}
						o["count"] = n
					} else {
						bw := bufio.NewWriterSize(hcConn, 4096)
						n, _ := bw.Write(payload)
						bw.Flush()
						o["count"] = n
					}
				}()
				sc.mu.Lock()
				wire := append([]byte{}, sc.written.Bytes()...)
				sc.mu.Unlock()
				var got []byte
				rd := bytes.NewReader(wire)
				ok := true
				for rd.Len() > 0 {
					p, err := refPeer.OpenFrame(rd)
					if err != nil {
						ok = false
						break
					}
					got = append(got, p...)
				}
				o["same"] = ok && bytes.Equal(got, payload)
				lines = append(lines, o)
				if !ok || o["panic"] == true {
					break // the stream of this connection is out of step from here on
				}
			}
			hcConn.Close()
		}
		tr.Block(lines)
		mu.Lock()
		nmsgs += len(lines)
		mu.Unlock()
	})
	if firstErr != nil {
		return firstErr
	}
	fmt.Printf("framing: %d message sequences, %d messages encrypted by hc and compared with the reference framing\n", len(behs), nmsgs)
	return tr.Close()
}

func firstLen(n int) int {
	if n > 1024 {
		return 1024
	}
	return n
}
