package main

import (
	"fmt"
	"os"

	"github.com/brutella/hc/accessory"

	"hcverif/ref"
)

func init() { families["smoke"] = smoke }

// smoke: honest pair-setup, pair-verify and an encrypted GET against a real transport.
func smoke(a *Args) error {
	dir := mkTempDir("hcv-smoke")
	defer os.RemoveAll(dir)
	sw := accessory.NewSwitch(accessory.Info{Name: "Smoke"})
	tr, err := startTransport(dir, "00102003", false, sw.Accessory)
	if err != nil {
		return err
	}
	defer tr.Stop()
	r := rngFor(a.Seed, 0)
	id := ref.NewIdentity("11111111-2222-3333-4444-555555555555", rndFunc(r))
	for try := 0; ; try++ {
		c, err := ref.Dial(tr.Addr)
		if err != nil {
			return err
		}
		sc := &ref.SetupClient{Pin: "001-02-003", ID: id, Rnd: rndFunc(r)}
		err = sc.Run(c)
		c.Close()
		if (err == ref.ErrRedraw || err == ref.ErrRedrawB) && try < 5 {
			continue
		}
		if err != nil {
			return fmt.Errorf("pair-setup: %v", err)
		}
		fmt.Println("pair-setup ok; accessory id", sc.AccessoryID)
		break
	}
	c, err := ref.Dial(tr.Addr)
	if err != nil {
		return err
	}
	defer c.Close()
	vc := &ref.VerifyClient{ID: id, Rnd: rndFunc(r)}
	if err := vc.Run(c, tr.AccessoryLTPK()); err != nil {
		return fmt.Errorf("pair-verify: %v", err)
	}
	m, err := c.Do("GET", "/accessories", "", nil)
	if err != nil {
		return fmt.Errorf("GET: %v", err)
	}
	fmt.Println("GET /accessories", m.Status, len(m.Body), "bytes; txt", tr.T.VerifTXT())
	return nil
}
