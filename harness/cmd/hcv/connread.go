package main

// Family "connread": scripted network segments under the real hap.Connection read path (C07).

import (
	"bytes"
	"encoding/json"
	"fmt"
	"net"
	"os"
	"sync"
	"time"

	hccrypto "github.com/brutella/hc/crypto"
	"github.com/brutella/hc/db"
	"github.com/brutella/hc/hap"

	"hcverif/ref"
)

func init() { families["connread"] = connReadFamily }

// scriptConn is a net.Conn whose Read delivers exactly what the driver has let arrive, reports when the reader is
// waiting on an empty socket, and lets a read deadline expire on demand.
type scriptConn struct {
	addr    string // remote address to report (default: unique per object)
	mu      sync.Mutex
	cond    *sync.Cond
	buf     []byte
	fire    bool
	closed  bool
	waiting chan struct{}
	written bytes.Buffer
}

func newScriptConn() *scriptConn {
	c := &scriptConn{waiting: make(chan struct{}, 1)}
	c.cond = sync.NewCond(&c.mu)
	return c
}

type timeoutErr struct{}

func (timeoutErr) Error() string   { return "i/o timeout (scripted)" }
func (timeoutErr) Timeout() bool   { return true }
func (timeoutErr) Temporary() bool { return true }

func (c *scriptConn) Read(p []byte) (int, error) {
	c.mu.Lock()
	defer c.mu.Unlock()
	for len(c.buf) == 0 {
		if c.fire {
			c.fire = false
			return 0, timeoutErr{}
		}
		if c.closed {
			return 0, net.ErrClosed
		}
		select {
		case c.waiting <- struct{}{}:
		default:
		}
		c.cond.Wait()
	}
	n := copy(p, c.buf)
	c.buf = c.buf[n:]
	return n, nil
}

func (c *scriptConn) deliver(b []byte) {
	c.mu.Lock()
	c.buf = append(c.buf, b...)
	c.mu.Unlock()
	c.cond.Broadcast()
}

func (c *scriptConn) fireTimeout() {
	c.mu.Lock()
	c.fire = true
	c.mu.Unlock()
	c.cond.Broadcast()
}

func (c *scriptConn) Write(p []byte) (int, error) {
	c.mu.Lock()
	defer c.mu.Unlock()
	return c.written.Write(p)
}
func (c *scriptConn) Close() error {
	c.mu.Lock()
	c.closed = true
	c.mu.Unlock()
	c.cond.Broadcast()
	return nil
}

type fakeAddr string

func (a fakeAddr) Network() string { return "tcp" }
func (a fakeAddr) String() string  { return string(a) }

var fakeAddrCtr uint64
var fakeAddrMu sync.Mutex

func (c *scriptConn) LocalAddr() net.Addr { return fakeAddr("10.0.0.1:1") }
func (c *scriptConn) RemoteAddr() net.Addr {
	if c.addr != "" {
		return fakeAddr(c.addr)
	}
	return fakeAddr(fmt.Sprintf("10.9.9.9:%p", c))
}
func (c *scriptConn) SetDeadline(t time.Time) error      { return nil }
func (c *scriptConn) SetReadDeadline(t time.Time) error  { return nil }
func (c *scriptConn) SetWriteDeadline(t time.Time) error { return nil }

var (
	crCtxOnce sync.Once
	crCtx     hap.Context
)

func connReadContext() hap.Context {
	crCtxOnce.Do(func() {
		dir := mkTempDir("hcv-connread")
		database, err := db.NewDatabase(dir)
		if err != nil {
			panic(err)
		}
		dev, err := hap.NewSecuredDevice("AA:BB:CC:DD:EE:FF", "001-02-003", database)
		if err != nil {
			panic(err)
		}
		crCtx = hap.NewContextForSecuredDevice(dev)
		crDir = dir
	})
	return crCtx
}

var crDir string

// encryptedConnection returns a real hap.Connection over sc whose session has the accessory-side secure session installed.
func encryptedConnection(sc *scriptConn, shared [32]byte) (*hap.Connection, error) {
	ctx := connReadContext()
	hc := hap.NewConnection(sc, ctx)
	sess := ctx.GetSessionForConnection(sc)
	if sess == nil {
		return nil, fmt.Errorf("no session for the scripted connection")
	}
	crypt, err := hccrypto.NewSecureSessionFromSharedKey(shared)
	if err != nil {
		return nil, err
	}
	sess.SetCryptographer(crypt)
	sess.Encrypter() // the response that negotiated the session has been written
	if sess.Decrypter() == nil {
		return nil, fmt.Errorf("secure session not promoted")
	}
	return hc, nil
}

type crStep struct {
	A    string `json:"a"`
	X    int    `json:"x"`
	To   bool   `json:"to"`
	Msgs []int  `json:"msgs"`
}

type readResult struct {
	n   int
	err error
	buf []byte
}

func errClass(err error) string {
	if err == nil {
		return "none"
	}
	if ne, ok := err.(net.Error); ok && ne.Timeout() {
		return "timeout"
	}
	if err.Error() == "EOF" {
		return "eof"
	}
	return "other"
}

func runConnRead(b Beh, seed int64) ([]J, error) {
	var steps []crStep
	for _, raw := range b.Steps {
		var s crStep
		if err := json.Unmarshal(raw, &s); err != nil {
			return nil, err
		}
		steps = append(steps, s)
	}
	if len(steps) == 0 || steps[0].A != "Scenario" {
		return nil, fmt.Errorf("case %d: behaviour does not start with a scenario", b.ID)
	}
	rng := rngFor(seed, 6000000+b.ID)
	var shared [32]byte
	rng.Read(shared[:])
	sender := ref.NewControllerSession(shared)
	var plain, wire []byte
	for _, n := range steps[0].Msgs {
		p := make([]byte, n)
		rng.Read(p)
		plain = append(plain, p...)
		wire = append(wire, sender.SealMessage(p)...)
	}
	sc := newScriptConn()
	// an earlier connection of the same peer, from the same remote address, which the server has not closed yet
	oldConn := newScriptConn()
	oldConn.addr = sc.RemoteAddr().String()
	old := hap.NewConnection(oldConn, connReadContext())
	oldOpen := true
	defer func() {
		if oldOpen {
			old.Close()
		}
	}()
	hc, err := encryptedConnection(sc, shared)
	if err != nil {
		return nil, err
	}
	defer hc.Close()
	lines := []J{{"ev": "scenario", "case": b.ID, "msgs": steps[0].Msgs}}
	arrived, delivered := 0, 0
	var pending chan readResult
	idx := 0
	emit := func(o J) { o["case"], o["i"] = b.ID, idx; lines = append(lines, o) }
	// wait until the pending read returns or waits on the empty socket
	settle := func() (done bool) {
		select {
		case r := <-pending:
			pending = nil
			ok := r.n <= len(plain)-delivered && bytes.Equal(r.buf[:r.n], plain[delivered:delivered+r.n])
			if r.n > len(plain)-delivered {
				ok = false
			}
			emit(J{"ev": "ret", "n": r.n, "err": errClass(r.err), "ok": ok})
			if ok {
				delivered += r.n
			} else {
				delivered += r.n
				if delivered > len(plain) {
					delivered = len(plain)
				}
			}
			return true
		case <-sc.waiting:
			return false
		case <-time.After(5 * time.Second):
			pending = nil
			emit(J{"ev": "stuck"})
			return true
		}
	}
	fire := func() {
		emit(J{"ev": "fire"})
		sc.fireTimeout()
		for !settle() {
			// the implementation asked the socket again after the timeout: let that expire as well
			sc.fireTimeout()
		}
	}
	startRead := func(size int, to bool) {
		if pending != nil {
			fire()
		}
		// drain a stale waiting token
		select {
		case <-sc.waiting:
		default:
		}
		emit(J{"ev": "read", "b": size})
		ch := make(chan readResult, 1)
		pending = ch
		go func() {
			buf := make([]byte, size)
			defer func() {
				if r := recover(); r != nil {
					ch <- readResult{0, fmt.Errorf("panic: %v", r), buf}
				}
			}()
			n, err := hc.Read(buf)
			ch <- readResult{n, err, buf}
		}()
		if !settle() {
			emit(J{"ev": "pend"})
			if to {
				fire()
			}
		}
	}
	arrive := func(p int) {
		if p > len(wire) {
			p = len(wire)
		}
		if p <= arrived {
			return
		}
		emit(J{"ev": "arrive", "p": p})
		select {
		case <-sc.waiting:
		default:
		}
		sc.deliver(wire[arrived:p])
		arrived = p
		if pending != nil {
			if !settle() {
				emit(J{"ev": "pend"})
			}
		}
	}
	for k, s := range steps[1:] {
		idx = k + 1
		switch s.A {
		case "Arrive":
			arrive(s.X)
		case "Read":
			startRead(s.X, s.To)
		case "OldClosed":
			if oldOpen {
				old.Close()
				oldOpen = false
			}
			emit(J{"ev": "oldclosed"})
		default:
			return nil, fmt.Errorf("unknown action %q", s.A)
		}
	}
	// drain: everything arrives, then the caller keeps reading until nothing more can come
	idx = len(steps) - 1
	arrive(len(wire))
	for k := 0; k < 80; k++ {
		before := delivered
		startRead(4096, true)
		if delivered == before {
			break
		}
	}
	if pending != nil {
		fire()
	}
	return lines, nil
}

func connReadFamily(a *Args) error {
	behs, err := readBehs(a.Beh)
	if err != nil {
		return err
	}
	tr, err := newTracer(a.Trace)
	if err != nil {
		return err
	}
	connReadContext()
	defer func() {
		if crDir != "" {
			os.RemoveAll(crDir)
		}
	}()
	var mu sync.Mutex
	var firstErr error
	parallel(len(behs), 16, func(i int) {
		lines, err := runConnRead(behs[i], a.Seed)
		if err != nil {
			mu.Lock()
			if firstErr == nil {
				firstErr = err
			}
			mu.Unlock()
			return
		}
		tr.Block(lines)
	})
	if firstErr != nil {
		return firstErr
	}
	fmt.Printf("connread: %d scenarios replayed on the real hap.Connection, %d trace lines\n", len(behs), tr.n)
	return tr.Close()
}
