package main

// Family "connwrite": interleavings of concurrent writers on one real hap.Connection, realised with the verif gates
// (entering EncryptedWrite / between sealing and the socket write), plus an ungated stress run (C08).

import (
	"bytes"
	"encoding/json"
	"fmt"
	"os"
	"runtime"
	"strings"
	"sync"
	"time"

	"github.com/brutella/hc/hap"

	"hcverif/ref"
)

func init() { families["connwrite"] = connWriteFamily }

type cwStep struct {
	A string `json:"a"`
	W string `json:"w"`
}

var (
	cwMu    sync.Mutex
	cwConns = map[*hap.Connection]*cwGate{}
)

// cwGate serialises hook callbacks of one connection to the driver: the hook tells which payload it is about by the
// payload marker (first byte) and parks until released.
type cwGate struct {
	mu       sync.Mutex
	arrivals chan cwArrival
}

type cwArrival struct {
	kind    string // "enter" | "write"
	gid     string // goroutine that arrived
	release chan struct{}
}

// goid returns the id of the calling goroutine (from its stack header "goroutine N [running]:").
func goid() string {
	var buf [64]byte
	n := runtime.Stack(buf[:], false)
	f := strings.Fields(string(buf[:n]))
	if len(f) >= 2 {
		return f[1]
	}
	return "?"
}

func init() {
	hap.VerifWriteEnter = func(con *hap.Connection) {
		notifyEnterHook(con)
		cwMu.Lock()
		g := cwConns[con]
		cwMu.Unlock()
		if g == nil {
			return
		}
		rel := make(chan struct{})
		g.arrivals <- cwArrival{kind: "enter", gid: goid(), release: rel}
		<-rel
	}
	hap.VerifWriteGate = func(con *hap.Connection, sealed []byte) {
		cwMu.Lock()
		g := cwConns[con]
		cwMu.Unlock()
		if g == nil {
			return
		}
		rel := make(chan struct{})
		g.arrivals <- cwArrival{kind: "write", gid: goid(), release: rel}
		<-rel
	}
}

func cwPayload(marker byte, frames int) []byte {
	n := 1024*(frames-1) + 100 + int(marker)
	p := bytes.Repeat([]byte{marker}, n)
	return p
}

// analyse opens the captured socket bytes with the reference controller session.
func cwAnalyse(shared [32]byte, captured []byte, payloads map[byte][]byte) (ctrs []int, owners []string, intact bool) {
	s := ref.NewControllerSession(shared)
	rd := bytes.NewReader(captured)
	ctrs, owners = []int{}, []string{}
	var plain []byte
	for rd.Len() > 0 {
		// find under which counter (0..N) this frame opens
		pos := len(captured) - rd.Len()
		opened := false
		for c := uint64(0); c < 160; c++ {
			s.ReadCtr = c
			r2 := bytes.NewReader(captured[pos:])
			p, err := s.OpenFrame(r2)
			if err == nil {
				ctrs = append(ctrs, int(c))
				if len(p) > 0 {
					owners = append(owners, string(p[0]))
				} else {
					owners = append(owners, "?")
				}
				plain = append(plain, p...)
				rd.Seek(int64(len(captured)-r2.Len()), 0)
				opened = true
				break
			}
		}
		if !opened {
			ctrs = append(ctrs, -1)
			owners = append(owners, "?")
			break
		}
	}
	// every payload complete and contiguous in the plaintext stream
	intact = true
	rest := plain
	seen := map[byte]bool{}
	for len(rest) > 0 {
		m := rest[0]
		p, ok := payloads[m]
		if !ok || seen[m] || len(rest) < len(p) || !bytes.Equal(rest[:len(p)], p) {
			intact = false
			break
		}
		seen[m] = true
		rest = rest[len(p):]
	}
	if len(seen) != len(payloads) {
		intact = false
	}
	return
}

func runSchedule(b Beh, seed int64) (J, error) {
	var steps []cwStep
	for _, raw := range b.Steps {
		var s cwStep
		if err := json.Unmarshal(raw, &s); err != nil {
			return nil, err
		}
		steps = append(steps, s)
	}
	rng := rngFor(seed, 7000000+b.ID)
	var shared [32]byte
	rng.Read(shared[:])
	sc := newScriptConn()
	hc, err := encryptedConnection(sc, shared)
	if err != nil {
		return nil, err
	}
	defer hc.Close()
	g := &cwGate{arrivals: make(chan cwArrival, 16)}
	cwMu.Lock()
	cwConns[hc] = g
	cwMu.Unlock()
	defer func() {
		cwMu.Lock()
		delete(cwConns, hc)
		cwMu.Unlock()
	}()
	writers := []string{}
	for _, s := range steps {
		found := false
		for _, w := range writers {
			if w == s.W {
				found = true
			}
		}
		if !found {
			writers = append(writers, s.W)
		}
	}
	payloads := map[byte][]byte{}
	marker := map[string]byte{}
	for i, w := range writers {
		m := byte('A' + i)
		marker[w] = m
		frames := 1
		if w == "w1" {
			// "several frames": two, or many (a response of some 50 KB: whatever the size, it is one critical section)
			frames = b.Big
			if frames < 2 {
				frames = 2
			}
		}
		payloads[m] = cwPayload(m, frames)
	}
	// Writers are started one at a time; every gate arrival carries the goroutine id of its writer.
	enterRel := map[string]chan struct{}{}
	writeRel := map[string]chan struct{}{}
	done := map[string]chan struct{}{}
	byGid := map[string]string{}
	var wg sync.WaitGroup
	for _, w := range writers {
		d := make(chan struct{})
		done[w] = d
		wg.Add(1)
		go func(w string, d chan struct{}) {
			defer wg.Done()
			defer close(d)
			hc.Write(payloads[marker[w]])
		}(w, d)
		select {
		case a := <-g.arrivals:
			if a.kind != "enter" {
				return nil, fmt.Errorf("case %d: unexpected gate arrival %s", b.ID, a.kind)
			}
			enterRel[w] = a.release
			byGid[a.gid] = w
		case <-time.After(3 * time.Second):
			return nil, fmt.Errorf("case %d: writer %s did not reach EncryptedWrite (connection not encrypted?)", b.ID, w)
		}
	}
	const patience = 60 * time.Millisecond
	isDone := func(w string) bool {
		select {
		case <-done[w]:
			return true
		default:
			return false
		}
	}
	// park records an arrival at the gate before the socket write; arrivals of `auto` are let through at once
	park := func(a cwArrival, auto string) {
		w := byGid[a.gid]
		if w == auto || w == "" {
			close(a.release)
			return
		}
		if old, ok := writeRel[w]; ok {
			close(old)
		}
		writeRel[w] = a.release
	}
	realised := true
	entered := map[string]bool{}
	for si, s := range steps {
		switch s.A {
		case "Begin":
			if entered[s.W] {
				// the writer enters again on its own (a payload written in several critical sections has no gate there)
				continue
			}
			entered[s.W] = true
			close(enterRel[s.W])
			// the writer now seals; it reaches the write gate unless a lock held by a parked writer stops it
			deadline := time.After(patience)
			arrived := false
			for !arrived {
				select {
				case a := <-g.arrivals:
					park(a, "")
					arrived = byGid[a.gid] == s.W
				case <-deadline:
					realised = false // held back by mutual exclusion: the adversarial order cannot be forced (the good outcome)
					arrived = true
				}
			}
		case "SockWrite":
			rel, ok := writeRel[s.W]
			if !ok {
				realised = false
				continue
			}
			close(rel)
			delete(writeRel, s.W)
			// let this writer complete (further gate arrivals of it pass - unless the word goes on with another section of
			// its payload), park others that get going meanwhile
			auto := s.W
			for _, later := range steps[si+1:] {
				if later.A == "SockWrite" && later.W == s.W {
					auto = "-"
				}
			}
			deadline := time.After(4 * patience)
			for !isDone(s.W) {
				select {
				case a := <-g.arrivals:
					park(a, auto)
					if auto == "-" && byGid[a.gid] == s.W {
						goto next
					}
				case <-done[s.W]:
				case <-deadline:
					goto next
				}
			}
		next:
		}
	}
	// the schedule is over: release whatever is parked and let every further arrival through
	for w, rel := range writeRel {
		close(rel)
		delete(writeRel, w)
	}
	fin := make(chan struct{})
	go func() { wg.Wait(); close(fin) }()
	stuck := false
	for running := true; running; {
		select {
		case a := <-g.arrivals:
			close(a.release)
		case <-fin:
			running = false
		case <-time.After(5 * time.Second):
			stuck = true
			running = false
		}
	}
	sc.mu.Lock()
	captured := append([]byte{}, sc.written.Bytes()...)
	sc.mu.Unlock()
	ctrs, owners, intact := cwAnalyse(shared, captured, payloads)
	order := []string{}
	for _, s := range steps {
		order = append(order, s.A+":"+s.W)
	}
	if stuck {
		ctrs = append(ctrs, -1) // writers that never finish do not deliver their payload
		intact = false
	}
	return J{"ev": "sched", "case": b.ID, "i": len(steps) - 1, "order": order, "big": b.Big, "realised": realised, "stuck": stuck, "ctrs": ctrs, "owners": owners, "intact": intact, "races": 0}, nil
}

// stress: ungated concurrent writers (response, notifications, keep-alive sized payloads); the -race build reports data races.
func runStress(id int, seed int64, writers, rounds int) J {
	rng := rngFor(seed, 7500000+id)
	var shared [32]byte
	rng.Read(shared[:])
	sc := newScriptConn()
	hc, err := encryptedConnection(sc, shared)
	if err != nil {
		return J{"ev": "stress", "case": id, "i": 0, "ctrs": []int{-1}, "owners": []string{}, "intact": false, "races": 0}
	}
	defer hc.Close()
	payloads := map[byte][]byte{}
	var wg sync.WaitGroup
	start := make(chan struct{})
	m := byte(1)
	for w := 0; w < writers; w++ {
		for r := 0; r < rounds; r++ {
			fr := 1 + int(m)%3
			if id%3 == 2 && w == 0 {
				fr = 20 + 15*r // 20, 35, 50, ... frames: larger than any piece a chunked writer might choose
			}
			p := cwPayload(m, fr)
			payloads[m] = p
			m++
		}
	}
	k := byte(1)
	for w := 0; w < writers; w++ {
		mine := []byte{}
		for r := 0; r < rounds; r++ {
			mine = append(mine, k)
			k++
		}
		wg.Add(1)
		go func(mine []byte) {
			defer wg.Done()
			<-start
			for _, mk := range mine {
				hc.Write(payloads[mk])
			}
		}(mine)
	}
	close(start)
	wg.Wait()
	sc.mu.Lock()
	captured := append([]byte{}, sc.written.Bytes()...)
	sc.mu.Unlock()
	ctrs, owners, intact := cwAnalyseStress(shared, captured, payloads)
	_ = owners
	return J{"ev": "stress", "case": id, "i": 0, "ctrs": ctrs, "owners": []string{}, "intact": intact, "races": 0}
}

// stress analysis: frames must open with consecutive counters; payloads contiguous
func cwAnalyseStress(shared [32]byte, captured []byte, payloads map[byte][]byte) ([]int, []string, bool) {
	s := ref.NewControllerSession(shared)
	frames, err := s.OpenAll(captured)
	ctrs := []int{}
	for i := range frames {
		ctrs = append(ctrs, i)
	}
	if err != nil {
		ctrs = append(ctrs, -1)
		return ctrs, nil, false
	}
	var plain []byte
	for _, f := range frames {
		plain = append(plain, f...)
	}
	intact := true
	seen := map[byte]bool{}
	for len(plain) > 0 {
		mk := plain[0]
		p, ok := payloads[mk]
		if !ok || seen[mk] || len(plain) < len(p) || !bytes.Equal(plain[:len(p)], p) {
			intact = false
			break
		}
		seen[mk] = true
		plain = plain[len(p):]
	}
	if len(seen) != len(payloads) {
		intact = false
	}
	return ctrs, nil, intact
}

func connWriteFamily(a *Args) error {
	tr, err := newTracer(a.Trace)
	if err != nil {
		return err
	}
	connReadContext()
	defer func() {
		if crDir != "" {
			os.RemoveAll(crDir)
		}
	}()
	if strings.HasPrefix(a.Extra, "stress") {
		n := a.N
		if n == 0 {
			n = 50
		}
		for i := 0; i < n; i++ {
			tr.Block([]J{runStress(1000000+i, a.Seed, 2+i%5, 3+i%4)})
		}
		fmt.Printf("connwrite: %d stress runs\n", n)
		return tr.Close()
	}
	behs, err := readBehs(a.Beh)
	if err != nil {
		return err
	}
	for _, b := range behs {
		line, err := runSchedule(b, a.Seed)
		if err != nil {
			return err
		}
		tr.Block([]J{line})
	}
	fmt.Printf("connwrite: %d schedules replayed on real goroutines\n", len(behs))
	return tr.Close()
}
