package main

import (
	"bytes"
	gocontext "context"
	"fmt"
	"image"
	"log"
	"math/rand"
	"net"
	"os"
	"strings"
	"sync"
	"sync/atomic"
	"time"

	"github.com/brutella/hc"
	"github.com/brutella/hc/accessory"
	"github.com/brutella/hc/db"
	"github.com/brutella/hc/event"
	"github.com/brutella/hc/hap"
	"github.com/brutella/hc/hap/endpoint"
	haphttp "github.com/brutella/hc/hap/http"
	"github.com/brutella/hc/util"

	"hcverif/ref"
)

// panicLog captures net/http's "http: panic serving" lines written through the standard logger.
type panicLog struct {
	mu  sync.Mutex
	buf bytes.Buffer
}

func (p *panicLog) Write(b []byte) (int, error) {
	p.mu.Lock()
	defer p.mu.Unlock()
	return p.buf.Write(b)
}

// Take returns the number of panics logged since the last call, and a sample.
func (p *panicLog) Take() (int, string) {
	p.mu.Lock()
	defer p.mu.Unlock()
	s := p.buf.String()
	p.buf.Reset()
	n := strings.Count(s, "http: panic serving")
	if len(s) > 300 {
		s = s[:300]
	}
	return n, s
}

var stdPanics = &panicLog{}

func init() { log.SetOutput(stdPanics) }

func freePort() string {
	l, err := net.Listen("tcp", "127.0.0.1:0")
	if err != nil {
		panic(err)
	}
	defer l.Close()
	_, p, _ := net.SplitHostPort(l.Addr().String())
	return p
}

// Transport wraps a started hc ip transport.
type Transport struct {
	T interface {
		Start()
		Stop() <-chan struct{}
		VerifPort() string
		VerifTXT() map[string]string
		VerifContext() hap.Context
		XHMURI() (string, error)
	}
	Addr string
	Dir  string
	Pin  string
	DB   db.Database
	St   util.Storage
	Ctx  hap.Context
	stop func()
	id   string
}

type camSetter interface{}

// startTransport creates and starts a real transport on loopback. snapshot registers /resource.
func startTransport(dir, pin string, snapshot bool, a *accessory.Accessory, as ...*accessory.Accessory) (*Transport, error) {
	// the OS chooses the port when the server binds (no window between choosing and binding); it is read back through
	// the verif accessor
	cfg := hc.Config{StoragePath: dir, Pin: pin}
	t, err := hc.NewIPTransport(cfg, a, as...)
	if err != nil {
		return nil, err
	}
	if snapshot {
		t.CameraSnapshotReq = func(w, h uint) (*image.Image, error) {
			var img image.Image = image.NewRGBA(image.Rect(0, 0, 4, 4))
			return &img, nil
		}
	}
	go t.Start()
	tr := &Transport{T: t, Dir: dir, Pin: pin, Ctx: t.VerifContext()}
	deadline := time.Now().Add(10 * time.Second)
	for {
		if p := t.VerifPort(); p != "" {
			tr.Addr = "127.0.0.1:" + p
			c, err := net.DialTimeout("tcp", tr.Addr, time.Second)
			if err == nil {
				c.Close()
				break
			}
		}
		if time.Now().After(deadline) {
			return nil, fmt.Errorf("transport did not start listening")
		}
		time.Sleep(5 * time.Millisecond)
	}
	st, err := util.NewFileStorage(dir)
	if err != nil {
		return nil, err
	}
	tr.St = st
	tr.DB = db.NewDatabaseWithStorage(st)
	return tr, nil
}

func (t *Transport) Stop() {
	if t.stop != nil {
		t.stop()
		return
	}
	select {
	case <-t.T.Stop():
	case <-time.After(10 * time.Second):
	}
}

// AccessoryID is the device id (pairing name of the accessory).
func (t *Transport) AccessoryID() string {
	if t.id != "" {
		return t.id
	}
	b, _ := t.St.Get("uuid")
	return string(b)
}

func (t *Transport) AccessoryLTPK() []byte {
	e, err := t.DB.EntityWithName(t.AccessoryID())
	if err != nil {
		return nil
	}
	return e.PublicKey
}

// ControllerNames lists stored entities other than the accessory itself, sorted.
func (t *Transport) Entities() []db.Entity {
	es, _ := t.DB.Entities()
	return es
}

// seedPairing stores a controller's long-term public key directly (as a completed pair-setup would).
func (t *Transport) seedPairing(id ref.Identity) error {
	return t.DB.SaveEntity(db.NewEntity(id.Name, id.Pub, nil))
}

func mkTempDir(prefix string) string {
	d, err := os.MkdirTemp("", prefix)
	if err != nil {
		panic(err)
	}
	return d
}

// registerResource makes startHTTPServer register the /resource endpoint too.
var registerResource bool

// startHTTPServer starts hc's HAP HTTP server (hap/http.NewServer: all endpoints, real sessions and database) without
// the ip transport around it, i.e. without the mDNS responder whose re-announcement delays every successful pairing
// by about a second.
func startHTTPServer(dir, pin string, accs ...*accessory.Accessory) (*Transport, error) {
	st, err := util.NewFileStorage(dir)
	if err != nil {
		return nil, err
	}
	database := db.NewDatabaseWithStorage(st)
	fpin, err := hc.ValidatePin(pin)
	if err != nil {
		return nil, err
	}
	id := util.MAC48Address(util.RandomHexString())
	device, err := hap.NewSecuredDevice(id, fpin, database)
	if err != nil {
		return nil, err
	}
	hctx := hap.NewContextForSecuredDevice(device)
	container := accessory.NewContainer()
	for _, a := range accs {
		container.AddAccessory(a)
	}
	srv := haphttp.NewServer(haphttp.Config{Port: ":0", Context: hctx, Database: database, Container: container,
		Device: device, Mutex: &sync.Mutex{}, Emitter: event.NewEmitter()})
	if registerResource {
		// as ip_transport.go does for a transport with a camera snapshot function
		srv.Mux.Handle("/resource", srv.Authenticate(endpoint.NewResource(hctx, func(w, h uint) (*image.Image, error) {
			var img image.Image = image.NewRGBA(image.Rect(0, 0, 4, 4))
			return &img, nil
		})))
	}
	cctx, cancel := gocontext.WithCancel(gocontext.Background())
	done := make(chan struct{})
	go func() { srv.ListenAndServe(cctx); close(done) }()
	tr := &Transport{Addr: "127.0.0.1:" + srv.Port(), Dir: dir, Pin: pin, DB: database, St: st, Ctx: hctx, id: id}
	tr.stop = func() {
		cancel()
		select {
		case <-done:
		case <-time.After(5 * time.Second):
		}
	}
	for i := 0; ; i++ {
		c, err := net.DialTimeout("tcp", tr.Addr, time.Second)
		if err == nil {
			c.Close()
			break
		}
		if i > 200 {
			return nil, fmt.Errorf("http server did not start")
		}
		time.Sleep(5 * time.Millisecond)
	}
	return tr, nil
}

// WaitEncrypted blocks until the server has promoted the secure session of the connection with this client-side
// address (its next read is then a decrypting read), at most one second. A controller that sends its first
// encrypted request in the window between the V4 response and that promotion can lose it (DESIGN.md D16: net/http's
// plaintext background read consumes the first ciphertext byte); every harness that is not about that window waits.
// sessionOf finds the session of the connection whose remote address, seen from the server, is remote. How the context keys
// its sessions is the library's business.
func sessionOf(ctx hap.Context, remote string) hap.Session {
	for _, c := range ctx.ActiveConnections() {
		if c != nil && c.RemoteAddr() != nil && c.RemoteAddr().String() == remote {
			if s := ctx.GetSessionForConnection(c); s != nil {
				return s
			}
		}
	}
	return nil
}

func (t *Transport) WaitEncrypted(local string) bool {
	for i := 0; i < 2000; i++ {
		if s := sessionOf(t.Ctx, local); s != nil && s.Encrypter() != nil {
			return true
		}
		time.Sleep(500 * time.Microsecond)
	}
	return false
}

var verifyRetries int64

// verifiedConn opens a connection and pair-verifies as id, waiting for the server to promote the session.
// An honest pair-verify can fail for a schedule-dependent reason on the unrepaired tree (DESIGN.md D14: the V4 answer is
// occasionally sent in ciphertext); that is C04's business, every other family simply tries again and counts it.
func (t *Transport) verifiedConn(id ref.Identity, ltpk []byte, rng *rand.Rand) (*ref.Conn, error) {
	var last error
	for try := 0; try < 6; try++ {
		c, err := ref.Dial(t.Addr)
		if err != nil {
			return nil, err
		}
		vc := &ref.VerifyClient{ID: id, Rnd: rndFunc(rng)}
		if err := vc.Run(c, ltpk); err != nil {
			c.Close()
			last = err
			atomic.AddInt64(&verifyRetries, 1)
			continue
		}
		if !t.WaitEncrypted(c.C.LocalAddr().String()) {
			c.Close()
			last = fmt.Errorf("session not promoted")
			atomic.AddInt64(&verifyRetries, 1)
			continue
		}
		return c, nil
	}
	return nil, fmt.Errorf("honest pair-verify failed repeatedly: %v", last)
}
