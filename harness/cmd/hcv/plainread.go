package main

// Family "plainread": words of PlainRead.tla executed on a real hap.Connection that is not encrypted (a scripted socket):
// requests arrive in pieces, the HTTP server's reads, its "a request is handled" / "the response is written" announcements
// and its aborts are replayed; what each read returns, and whether it blocks, is recorded (C05 / C01 / C04).

import (
	"bytes"
	"encoding/json"
	"fmt"
	"strings"
	"sync"
	"time"

	hccrypto "github.com/brutella/hc/crypto"
	"github.com/brutella/hc/hap"
)

func init() { families["plainread"] = plainReadFamily }

type prStep struct {
	A      string `json:"a"`
	N      int    `json:"n"`
	Bodies []int  `json:"bodies"`
	Switch int    `json:"switch"`
}

func runPlainRead(b Beh, seed int64) ([]J, error) {
	var steps []prStep
	for _, raw := range b.Steps {
		var s prStep
		if err := json.Unmarshal(raw, &s); err != nil {
			return nil, err
		}
		steps = append(steps, s)
	}
	if len(steps) == 0 || steps[0].A != "Scenario" {
		return nil, fmt.Errorf("case %d: behaviour does not start with a scenario", b.ID)
	}
	rng := rngFor(seed, 26000000+b.ID)
	bodies, sw := steps[0].Bodies, steps[0].Switch
	// tokens -> bytes: the head in two pieces (cut inside the name of the length header), two bytes per body token; line ends
	// are CRLF or bare LF by seed
	nl := []string{"\r\n", "\n"}[rng.Intn(2)]
	var tokens [][]byte
	ends := []int{}
	total := 0
	for i, bl := range bodies {
		head := fmt.Sprintf("POST /r%d HTTP/1.1%sHost: hc.local%sContent-Length: %d%s%s", i+1, nl, nl, 2*bl, nl, nl)
		cut := bytes.Index([]byte(head), []byte("Content-Le")) + 10
		tokens = append(tokens, []byte(head[:cut]), []byte(head[cut:]))
		total += len(head)
		for k := 0; k < bl; k++ {
			tokens = append(tokens, []byte{byte('0' + i + 1), byte('a' + k)})
			total += 2
		}
		ends = append(ends, total)
	}
	var wire []byte
	tokEnd := []int{}
	for _, t := range tokens {
		wire = append(wire, t...)
		tokEnd = append(tokEnd, len(wire))
	}
	sc := newScriptConn()
	ctx := connReadContext()
	hc := hap.NewConnection(sc, ctx)
	defer hc.Close()
	sess := ctx.GetSessionForConnection(sc)
	var shared [32]byte
	rng.Read(shared[:])
	crypt, err := hccrypto.NewSecureSessionFromSharedKey(shared)
	if err != nil || sess == nil {
		return nil, fmt.Errorf("session setup failed")
	}
	lines := []J{{"ev": "scenario", "case": b.ID, "ends": ends, "switch": sw, "nreq": len(bodies)}}
	arrivedTok, consumed, handled := 0, 0, 0 // consumed: plaintext bytes returned so far
	var pending chan readResult
	var mu sync.Mutex
	poll := func(wait time.Duration) *readResult {
		if pending == nil {
			return nil
		}
		select {
		case r := <-pending:
			pending = nil
			return &r
		case <-time.After(wait):
			return nil
		}
	}
	startRead := func(size int) {
		ch := make(chan readResult, 1)
		pending = ch
		go func() {
			buf := make([]byte, size)
			defer func() {
				if r := recover(); r != nil {
					ch <- readResult{0, fmt.Errorf("panic: %v", r), buf}
				}
			}()
			n, err := hc.Read(buf)
			ch <- readResult{n, err, buf}
		}()
	}
	nextSize := func(k int) int { // the buffer of the read that is about to start: what the word's next ReadReturn asks for
		for _, s := range steps[k+1:] {
			if s.A == "ReadReturn" {
				t := 0
				for ; t < len(tokEnd) && tokEnd[t] <= consumed; t++ {
				}
				e := t + s.N
				if e > len(tokEnd) {
					e = len(tokEnd)
				}
				if e > t {
					return tokEnd[e-1] - consumed
				}
			}
			if s.A == "ReadCall" {
				break
			}
		}
		return 4096
	}
	_ = &mu
	// credit: bytes a read returned before the word's ReadReturn step came (the implementation does not wait for the word)
	credit := -1
	for k, s := range steps[1:] {
		o := J{"ev": "step", "case": b.ID, "i": k + 1, "a": s.A, "n": s.N, "ret": -1, "err": "none", "plainok": true, "pending": false, "started": false, "attack": strings.HasPrefix(b.Kind, "attack")}
		account := func(r *readResult) {
			if r == nil {
				return
			}
			o["ret"], o["err"] = r.n, errClass(r.err)
			if r.n > 0 {
				ok := consumed+r.n <= len(wire) && bytes.Equal(r.buf[:r.n], wire[consumed:consumed+r.n])
				o["plainok"] = ok
				consumed += r.n
				if s.A != "ReadReturn" {
					credit = r.n
				}
			}
		}
		switch s.A {
		case "Arrive":
			e := arrivedTok + s.N
			if e > len(tokens) {
				e = len(tokens)
			}
			from := 0
			if arrivedTok > 0 {
				from = tokEnd[arrivedTok-1]
			}
			if e > arrivedTok {
				sc.deliver(wire[from:tokEnd[e-1]])
			}
			arrivedTok = e
			account(poll(15 * time.Millisecond))
		case "ReadCall":
			credit = -1
			if pending == nil {
				startRead(nextSize(k + 1))
				o["started"] = true
			}
			account(poll(15 * time.Millisecond))
		case "ReadReturn", "ReadSession":
			if credit >= 0 && pending == nil {
				o["ret"], credit = credit, -1 // the read of this step has returned already
				break
			}
			if pending == nil {
				startRead(nextSize(k))
				o["started"] = true
			}
			account(poll(300 * time.Millisecond))
		case "HandlerStart":
			hc.SetHandlingRequest(true)
			account(poll(15 * time.Millisecond))
		case "HandlerDone":
			if handled+1 == sw {
				sess.SetDecrypter(crypt) // as the pair-verify endpoint does before it writes the response
			}
			hc.SetHandlingRequest(false)
			handled++
			account(poll(15 * time.Millisecond))
		case "Abort":
			if pending != nil {
				hc.SetReadDeadline(time.Unix(1, 0))
				sc.fireTimeout()
				account(poll(300 * time.Millisecond))
				hc.SetReadDeadline(time.Time{})
			}
		default:
			return nil, fmt.Errorf("unknown action %q", s.A)
		}
		o["pending"] = pending != nil
		o["consumed"], o["handled"] = consumed, handled
		lines = append(lines, o)
	}
	if pending != nil {
		hc.SetReadDeadline(time.Unix(1, 0))
		sc.fireTimeout()
		poll(300 * time.Millisecond)
	}
	return lines, nil
}

func plainReadFamily(a *Args) error {
	behs, err := readBehs(a.Beh)
	if err != nil {
		return err
	}
	tr, err := newTracer(a.Trace)
	if err != nil {
		return err
	}
	var mu sync.Mutex
	var firstErr error
	parallel(len(behs), 16, func(i int) {
		lines, err := runPlainRead(behs[i], a.Seed)
		if err != nil {
			mu.Lock()
			firstErr = err
			mu.Unlock()
			return
		}
		tr.Block(lines)
	})
	if firstErr != nil {
		return firstErr
	}
	fmt.Printf("plainread: %d words replayed on unencrypted connections, %d trace lines\n", len(behs), tr.n)
	return tr.Close()
}
