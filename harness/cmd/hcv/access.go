package main

// Family "access": replays Access.tla behaviours (pair-verify machine, session switch, gating layer) against a real
// hc ip transport over loopback TCP, and records what the server did (C01, C03).

import (
	"bytes"
	"crypto/ed25519"
	"encoding/json"
	"fmt"
	"math/rand"
	"net"
	"os"
	"sort"
	"strings"
	"sync"
	"sync/atomic"
	"time"

	"github.com/brutella/hc/accessory"
	"github.com/brutella/hc/hap"

	"hcverif/ref"
)

func init() { families["access"] = accessFamily }

const canary = "CANARY-7f3a91c4"

type accStep struct {
	C   string `json:"c"`
	A   string `json:"a"`
	P   string `json:"p"`
	F   string `json:"f"`
	Exp string `json:"exp"`
}

type accWorld struct {
	tr     *Transport
	sw     *accessory.Switch
	legit  ref.Identity
	accID  string
	onIID  uint64
	cb     int64
	rng    *rand.Rand
	nconns int
	seed   int64
}

type accConn struct {
	name   string
	c      *ref.Conn
	id     ref.Identity // the identity this peer can sign with (evil: its own, unpaired key)
	legit  bool
	cur    *ref.VerifyClient // latest accepted exchange
	prev   *ref.VerifyClient // the one before
	sess   *ref.Session      // client-side framing state for cipher requests
	dead   bool
	closed bool
	local  string
	// expectEnc: a genuine finish was accepted, the harness believes the server switched to the secure session
	expectEnc bool
}

func newAccWorld(seed int64, k int) (*accWorld, error) {
	w := &accWorld{rng: rngFor(seed, 1000+k), seed: seed}
	dir := mkTempDir("hcv-access")
	w.sw = accessory.NewSwitch(accessory.Info{Name: "Gate", SerialNumber: canary})
	w.sw.Switch.On.OnValueRemoteUpdate(func(bool) { atomic.AddInt64(&w.cb, 1) })
	tr, err := startTransport(dir, "00102003", true, w.sw.Accessory)
	if err != nil {
		return nil, err
	}
	w.tr = tr
	w.legit = ref.NewIdentity("legit-controller", rndFunc(w.rng))
	w.accID = tr.AccessoryID()
	w.onIID = w.sw.Switch.On.ID
	if err := tr.seedPairing(w.legit); err != nil {
		return nil, err
	}
	return w, nil
}

func (w *accWorld) close() {
	w.tr.Stop()
	os.RemoveAll(w.tr.Dir)
}

// baseline restores values, callbacks and the pairing store between words.
// setOn changes the value from the application side. A panic inside hc (it can happen when a notified connection is
// closing at that very moment, see DESIGN.md D15) is recorded, not propagated: it is C10's business.
func (w *accWorld) setOn(v bool) {
	defer func() {
		if r := recover(); r != nil {
			atomic.AddInt64(&appPanics, 1)
		}
	}()
	w.sw.Switch.On.SetValue(v)
}

var appPanics int64

func (w *accWorld) baseline() error {
	w.setOn(false)
	atomic.StoreInt64(&w.cb, 0)
	for _, e := range w.tr.Entities() {
		if e.Name != w.accID && e.Name != w.legit.Name {
			w.tr.DB.DeleteEntity(e)
		}
	}
	return w.tr.seedPairing(w.legit)
}

func (w *accWorld) storeNames() []string {
	var out []string
	for _, e := range w.tr.Entities() {
		switch e.Name {
		case w.accID:
			out = append(out, "acc")
		case w.legit.Name:
			if bytes.Equal(e.PublicKey, w.legit.Pub) {
				out = append(out, "legit")
			} else {
				out = append(out, "legit-rekeyed")
			}
		default:
			out = append(out, "other:"+e.Name)
		}
	}
	sort.Strings(out)
	return out
}

func (w *accWorld) val() int {
	if w.sw.Switch.On.GetValue() {
		return 1
	}
	return 0
}

func (w *accWorld) subs(conns map[string]*accConn) []string {
	out := []string{}
	ctx := w.tr.Ctx
	for name, cs := range conns {
		if cs.local == "" {
			continue
		}
		if s, ok := ctx.Get(cs.local).(hap.Session); ok && s != nil {
			if s.IsSubscribedTo(w.sw.Switch.On.Characteristic) {
				out = append(out, name)
			}
		}
	}
	sort.Strings(out)
	return out
}

func (w *accWorld) conn(conns map[string]*accConn, name string) (*accConn, error) {
	if cs, ok := conns[name]; ok {
		return cs, nil
	}
	c, err := ref.Dial(w.tr.Addr)
	if err != nil {
		return nil, err
	}
	c.Timeout = 3000 * time.Millisecond
	cs := &accConn{name: name, c: c, legit: strings.HasPrefix(name, "l"), local: c.C.LocalAddr().String()}
	if cs.legit {
		cs.id = w.legit
	} else {
		cs.id = ref.NewIdentity("evil-"+name, rndFunc(w.rng))
	}
	conns[name] = cs
	w.nconns++
	return cs, nil
}

type reply struct {
	http, state, terr int
	enc               bool
	class             string
	discloses         bool
	events            int
	tlv               ref.TLV
}

func discloses(m *ref.Msg) bool {
	if m == nil {
		return false
	}
	b := m.Body
	if bytes.Contains(b, []byte(canary)) || bytes.Contains(b, []byte(`"iid"`)) || bytes.Contains(b, []byte(`"aid"`)) || bytes.Contains(b, []byte(`"value"`)) {
		return true
	}
	if strings.HasPrefix(m.Header["content-type"], "image/") || bytes.HasPrefix(b, []byte{0xff, 0xd8}) {
		return true
	}
	return false
}

// exchange sends raw request bytes (framed when cipher) and reads messages until a response.
func (cs *accConn) exchange(req []byte, cipher bool) reply {
	r := reply{http: -1, state: -1, terr: -1}
	if cs.dead || cs.closed {
		r.class = "Closed"
		return r
	}
	if cipher {
		if cs.sess == nil {
			r.class = "Closed"
			return r
		}
		if cs.c.SessInstalled() != cs.sess {
			cs.c.Install(cs.sess)
		}
		cs.c.Sess = cs.sess
	} else {
		cs.c.Sess = nil
	}
	if err := cs.c.WriteRaw(req); err != nil {
		cs.dead = true
		r.class = "Closed"
		return r
	}
	if cipher && !cs.expectEnc {
		// The server is believed to be in plaintext mode: terminate the "request line" the frame will be taken for,
		// so that net/http answers 400 at once instead of waiting for a line end. If the server did switch, the
		// frame is served first and the tail only wedges what follows; either way this connection is finished.
		cs.c.C.Write([]byte("\r\n\r\n"))
		defer func() { cs.dead = true }()
	}
	for {
		m, err := cs.c.ReadMsg()
		if err != nil {
			cs.dead = true
			if ne, ok := err.(net.Error); ok && ne.Timeout() {
				r.class = "Timeout"
			} else {
				r.class = "Closed"
			}
			return r
		}
		if m.IsEvent() {
			r.events++
			continue
		}
		r.http = m.Status
		r.enc = m.Enc
		r.discloses = discloses(m)
		if t, err := ref.Decode(m.Body); err == nil && strings.Contains(m.Header["content-type"], "tlv8") {
			r.tlv = t
			r.state = t.Byte(ref.TagState)
			if _, ok := t.Get(ref.TagError); ok {
				r.terr = t.Byte(ref.TagError)
			} else {
				r.terr = 0
			}
		}
		switch {
		case cipher && !m.Enc && m.Status == 400:
			r.class = "BadRequest"
			cs.dead = true
		case m.Status >= 300:
			r.class = "Refused" // redirects (path cleaning) serve nothing
		default:
			r.class = "Served"
		}
		if strings.EqualFold(m.Header["connection"], "close") {
			cs.dead = true
		}
		return r
	}
}

func tlvReq(path string, t ref.TLV) []byte {
	return ref.BuildRequest("POST", path, ref.CTTLV, t.Encode())
}

func (w *accWorld) doStep(conns map[string]*accConn, st accStep) (J, error) {
	out := J{"c": st.C, "a": st.A, "p": st.P, "f": st.F, "injserved": false}
	var r reply
	switch st.A {
	case "LocalSet":
		w.setOn(!w.sw.Switch.On.GetValue())
		r = reply{http: -1, state: -1, terr: -1, class: "App"}
	case "Close":
		cs, err := w.conn(conns, st.C)
		if err != nil {
			return nil, err
		}
		cs.c.Close()
		cs.closed = true
		// wait until the server has noticed (session removed) so that later observations are stable
		ctx := w.tr.Ctx
		for i := 0; i < 400; i++ {
			if sessionOf(ctx, cs.local) == nil {
				break
			}
			time.Sleep(time.Millisecond)
		}
		r = reply{http: -1, state: -1, terr: -1, class: "App"}
	case "VStart":
		cs, err := w.conn(conns, st.C)
		if err != nil {
			return nil, err
		}
		out["freshb"] = true
		vc := &ref.VerifyClient{ID: cs.id, Rnd: rndFunc(w.rng)}
		v1 := vc.V1()
		var key []byte
		switch st.P {
		case "ok":
			key = vc.Eph.Pub[:]
		case "sameA":
			// the controller uses the ephemeral key of its previous exchange on this connection again
			if cs.cur == nil {
				fmt.Fprintln(os.Stderr, "skipped: VStart(sameA) without a previous exchange on", cs.name)
				r = reply{http: -1, state: -1, terr: -1, class: "Skipped"}
				break
			}
			vc.Eph = cs.cur.Eph
			key = vc.Eph.Pub[:]
		case "short":
			key = vc.Eph.Pub[:31]
		case "long":
			key = append(append([]byte{}, vc.Eph.Pub[:]...), 0x42)
		case "empty":
			key = []byte{}
		default:
			return nil, fmt.Errorf("VStart: unknown length class %q", st.P)
		}
		var t ref.TLV
		t.AddByte(ref.TagState, 1)
		t.Add(ref.TagPublicKey, key)
		_ = v1
		if r.class == "Skipped" {
			break
		}
		r = cs.exchange(tlvReq("/pair-verify", t), false)
		if (st.P == "ok" || st.P == "sameA") && r.http == 200 && r.state == 2 && r.terr == 0 {
			if err := vc.HandleV2(r.tlv, nil); err == nil {
				// the accessory's ephemeral key belongs to this exchange alone
				if cs.cur != nil && bytes.Equal(cs.cur.AccPub, vc.AccPub) {
					out["freshb"] = false
				}
				cs.prev, cs.cur = cs.cur, vc
				cs.sess = ref.NewControllerSession(vc.Shared)
				out["accsig"] = w.checkV2(vc)
			}
		}
	case "VFinish":
		cs, err := w.conn(conns, st.C)
		if err != nil {
			return nil, err
		}
		body, err := w.finishBody(conns, cs, st.P)
		if err != nil {
			// the server did not follow the model up to here (drift): the step cannot be formed, record it as skipped
			fmt.Fprintln(os.Stderr, "skipped:", err)
			r = reply{http: -1, state: -1, terr: -1, class: "Skipped"}
			break
		}
		if cs.cur != nil {
			cs.sess = ref.NewControllerSession(cs.cur.Shared) // a switch, if any, starts both counters at zero
			// bind the read side already: should the server answer this very request in ciphertext (it must not),
			// the reply is still understood and reported as enc=true instead of timing out
			cs.c.Install(cs.sess)
		}
		req := ref.BuildRequest("POST", "/pair-verify", ref.CTTLV, body)
		if st.P == "genuine_inject" {
			// the on-path adversary appends a plaintext protected request to the segment that carries the finish
			inj, _ := json.Marshal(J{"characteristics": []J{{"aid": w.sw.Accessory.ID, "iid": w.onIID, "value": !w.sw.Switch.On.GetValue()}}})
			// ... and may re-frame the (plaintext) finish request itself on the way: bare line feeds, a chunked body
			variant := []string{"asis", "asis", "lf", "chunked"}[w.rng.Intn(4)]
			out["reframed"] = variant
			switch variant {
			case "lf":
				if i := bytes.Index(req, []byte("\r\n\r\n")); i > 0 {
					req = append(bytes.Replace(req[:i+4], []byte("\r\n"), []byte("\n"), -1), req[i+4:]...)
				}
			case "chunked":
				req = []byte(fmt.Sprintf("POST /pair-verify HTTP/1.1\r\nHost: hc.local\r\nContent-Type: %s\r\nTransfer-Encoding: chunked\r\n\r\n%x\r\n%s\r\n0\r\n\r\n", ref.CTTLV, len(body), body))
			}
			req = append(req, ref.BuildRequest("PUT", "/characteristics", ref.CTJSON, inj)...)
		}
		r = cs.exchange(req, false)
		if st.P == "genuine_inject" {
			// whatever comes back after the answer to the finish is the answer to the appended request
			out["injserved"] = false
			if !cs.dead {
				if m, err := cs.c.ReadMsgWithin(300 * time.Millisecond); err == nil && m.Status >= 200 && m.Status < 300 {
					out["injserved"] = true
				}
			}
			// the appended bytes have ended this connection, one way or the other
			cs.dead = true
			cs.c.Close()
			for i := 0; i < 400 && sessionOf(w.tr.Ctx, cs.local) != nil; i++ {
				time.Sleep(time.Millisecond)
			}
		}
		if st.P == "genuine" && r.http == 200 && r.state == 4 && r.terr == 0 {
			cs.expectEnc = true
			w.tr.WaitEncrypted(cs.local)
		}
	case "PSNoise":
		cs, err := w.conn(conns, st.C)
		if err != nil {
			return nil, err
		}
		r = w.psNoise(cs, st.P)
	case "Req":
		cs, err := w.conn(conns, st.C)
		if err != nil {
			return nil, err
		}
		req, err := w.request(cs, st.P)
		if err != nil {
			return nil, err
		}
		req, out["tf"] = w.targetForm(cs, req)
		r = cs.exchange(req, st.F == "cipher")
	default:
		return nil, fmt.Errorf("unknown action %q", st.A)
	}
	out["http"], out["state"], out["err"] = r.http, r.state, r.terr
	out["enc"], out["class"], out["discloses"] = r.enc, r.class, r.discloses
	return out, nil
}

// checkV2 reports whether the accessory's V2 signature verifies under its stored long-term key.
func (w *accWorld) checkV2(vc *ref.VerifyClient) bool {
	ltpk := w.tr.AccessoryLTPK()
	material := append(append(append([]byte{}, vc.AccPub...), []byte(vc.AccessoryID)...), vc.Eph.Pub[:]...)
	return len(ltpk) == 32 && len(vc.AccessorySig) == 64 && ed25519.Verify(ltpk, material, vc.AccessorySig)
}

func (w *accWorld) finishBody(conns map[string]*accConn, cs *accConn, kind string) ([]byte, error) {
	rnd := func(n int) []byte { b := make([]byte, n); w.rng.Read(b); return b }
	needs := map[string]bool{"replayown": true, "genuine": true, "genuine_inject": true, "wrongkey": true, "stale": true, "reordered": true, "unknown": true, "self": true, "selfkey": true, "reflect": true, "badtlv": true}
	if needs[kind] && cs.cur == nil {
		return nil, fmt.Errorf("VFinish(%s) on %s without an accepted start: not concretisable", kind, cs.name)
	}
	sign := func(priv ed25519.PrivateKey, name string, a, b []byte) []byte {
		material := append(append(append([]byte{}, a...), []byte(name)...), b...)
		var t ref.TLV
		t.Add(ref.TagIdentifier, []byte(name))
		t.Add(ref.TagSignature, ed25519.Sign(priv, material))
		return t.Encode()
	}
	var key []byte
	if cs.cur != nil {
		key = cs.cur.EncKey[:]
	} else {
		key = rnd(32)
	}
	if cs.cur == nil {
		switch kind {
		case "genuine", "genuine_inject", "wrongkey", "reordered", "unknown", "self", "selfkey", "reflect", "crossname":
			return nil, fmt.Errorf("%s finish without an accepted start on this connection", kind)
		}
	}
	switch kind {
	case "genuine", "genuine_inject":
		if !cs.legit {
			return nil, fmt.Errorf("genuine finish on a key-less connection")
		}
		return cs.cur.V3().Encode(), nil
	case "wrongkey":
		evil := cs.id
		if cs.legit {
			evil = ref.NewIdentity("x", rndFunc(w.rng))
		}
		return ref.WrapV3(key, sign(evil.Priv, w.legit.Name, cs.cur.Eph.Pub[:], cs.cur.AccPub)).Encode(), nil
	case "stale":
		if cs.prev == nil {
			return nil, fmt.Errorf("stale finish without a previous exchange")
		}
		return ref.WrapV3(key, sign(w.legit.Priv, w.legit.Name, cs.prev.Eph.Pub[:], cs.prev.AccPub)).Encode(), nil
	case "reordered":
		return ref.WrapV3(key, sign(w.legit.Priv, w.legit.Name, cs.cur.AccPub, cs.cur.Eph.Pub[:])).Encode(), nil
	case "replayown":
		// the genuine finish of this connection's previous exchange, byte for byte
		if !cs.legit || cs.prev == nil {
			return nil, fmt.Errorf("replayown finish without a previous exchange of the paired controller")
		}
		return cs.prev.V3().Encode(), nil
	case "replayed":
		for _, o := range conns {
			if o.legit && o.cur != nil {
				return o.cur.V3().Encode(), nil
			}
		}
		return nil, fmt.Errorf("replayed finish without a legitimate exchange")
	case "crossname":
		// one paired controller posing as another: the name of the pairing added through /pairings (stored or not),
		// signed with the legitimate controller's key over this exchange's material
		if !cs.legit {
			return nil, fmt.Errorf("crossname finish on a key-less connection")
		}
		return ref.WrapV3(key, sign(w.legit.Priv, "added-by-"+cs.name, cs.cur.Eph.Pub[:], cs.cur.AccPub)).Encode(), nil
	case "unknown":
		return ref.WrapV3(key, sign(cs.id.Priv, "nobody-"+cs.name, cs.cur.Eph.Pub[:], cs.cur.AccPub)).Encode(), nil
	case "self":
		return ref.WrapV3(key, sign(cs.id.Priv, w.accID, cs.cur.Eph.Pub[:], cs.cur.AccPub)).Encode(), nil
	case "selfkey":
		// the accessory's own identifier, signed with the accessory's own long-term key (taken from its database)
		for _, e := range w.tr.Entities() {
			if e.Name == w.accID && len(e.PrivateKey) == ed25519.PrivateKeySize {
				return ref.WrapV3(key, sign(ed25519.PrivateKey(e.PrivateKey), w.accID, cs.cur.Eph.Pub[:], cs.cur.AccPub)).Encode(), nil
			}
		}
		return nil, fmt.Errorf("selfkey finish: the accessory's key pair is not in its database")
	case "reflect":
		// the accessory's own identifier with the accessory's own signature from its start response
		var t ref.TLV
		t.Add(ref.TagIdentifier, []byte(cs.cur.AccessoryID))
		t.Add(ref.TagSignature, cs.cur.AccessorySig)
		return ref.WrapV3(key, t.Encode()).Encode(), nil
	case "badseal":
		inner := sign(cs.id.Priv, w.legit.Name, rnd(32), rnd(32))
		return ref.WrapV3(rnd(32), inner).Encode(), nil
	case "short":
		var t ref.TLV
		t.AddByte(ref.TagState, 3)
		t.Add(ref.TagEncrypted, rnd(1+w.rng.Intn(15)))
		return t.Encode(), nil
	case "badtlv":
		return ref.WrapV3(key, []byte{0x01, 0x20, 0x41, 0x42}).Encode(), nil
	}
	return nil, fmt.Errorf("unknown finish kind %q", kind)
}

func (w *accWorld) psNoise(cs *accConn, kind string) reply {
	m1 := func() reply {
		var t ref.TLV
		t.AddByte(ref.TagState, 1)
		t.AddByte(ref.TagMethod, 0)
		return cs.exchange(tlvReq("/pair-setup", t), false)
	}
	switch kind {
	case "psstart":
		return m1()
	case "pswrong":
		m1()
		var t ref.TLV
		t.AddByte(ref.TagState, 3)
		a := make([]byte, 384)
		w.rng.Read(a)
		a[0] = 0x7f
		p := make([]byte, 64)
		w.rng.Read(p)
		t.Add(ref.TagPublicKey, a)
		t.Add(ref.TagProof, p)
		return cs.exchange(tlvReq("/pair-setup", t), false)
	case "pszero":
		m1()
		var t ref.TLV
		t.AddByte(ref.TagState, 3)
		t.Add(ref.TagPublicKey, make([]byte, 384))
		t.Add(ref.TagProof, make([]byte, 64))
		cs.exchange(tlvReq("/pair-setup", t), false)
		zero := make([]byte, 32)
		return cs.exchange(tlvReq("/pair-setup", ref.WrapM5(zero, ref.SubTLV5(nil, cs.id).Encode())), false)
	}
	return reply{http: -1, state: -1, terr: -1, class: "Closed"}
}

// targetForm rewrites the request target of a request an unverified peer sends: origin-form as it is, absolute-form,
// a percent-encoded path letter, a dot segment, a doubled slash. All of them name the same resource.
func (w *accWorld) targetForm(cs *accConn, req []byte) ([]byte, string) {
	if cs.expectEnc {
		return req, "origin"
	}
	sp1 := bytes.IndexByte(req, ' ')
	sp2 := sp1 + 1 + bytes.IndexByte(req[sp1+1:], ' ')
	target := string(req[sp1+1 : sp2])
	form := []string{"origin", "origin", "absolute", "pctenc", "dotseg", "dblslash", "absolute-pctenc"}[w.rng.Intn(7)]
	pct := func(t string) string { return "/" + fmt.Sprintf("%%%02x", t[1]) + t[2:] }
	switch form {
	case "absolute":
		target = "http://hc.local" + target
	case "pctenc":
		target = pct(target)
	case "dotseg":
		target = "/." + target
	case "dblslash":
		target = "/" + target
	case "absolute-pctenc":
		target = "http://hc.local" + pct(target)
	}
	out := append([]byte{}, req[:sp1+1]...)
	out = append(out, target...)
	return append(out, req[sp2:]...), form
}

func (w *accWorld) request(cs *accConn, op string) ([]byte, error) {
	switch op {
	case "GetAcc":
		return ref.BuildRequest("GET", "/accessories", "", nil), nil
	case "GetChar":
		return ref.BuildRequest("GET", fmt.Sprintf("/characteristics?id=1.%d,1.%d", w.sw.Info.SerialNumber.ID, w.onIID), "", nil), nil
	case "PutVal":
		v := !w.sw.Switch.On.GetValue()
		b, _ := json.Marshal(J{"characteristics": []J{{"aid": 1, "iid": w.onIID, "value": v}}})
		return ref.BuildRequest("PUT", "/characteristics", ref.CTJSON, b), nil
	case "PutSub":
		b, _ := json.Marshal(J{"characteristics": []J{{"aid": 1, "iid": w.onIID, "ev": true}}})
		return ref.BuildRequest("PUT", "/characteristics", ref.CTJSON, b), nil
	case "Resource":
		b, _ := json.Marshal(J{"resource-type": "image", "image-width": 4, "image-height": 4})
		return ref.BuildRequest("POST", "/resource", ref.CTJSON, b), nil
	case "AddPair":
		var t ref.TLV
		t.AddByte(ref.TagState, 1)
		t.AddByte(ref.TagMethod, 3)
		t.Add(ref.TagIdentifier, []byte("added-by-"+cs.name))
		t.Add(ref.TagPublicKey, cs.id.Pub)
		t.AddByte(ref.TagPermission, 1)
		return tlvReq("/pairings", t), nil
	case "RemPair":
		var t ref.TLV
		t.AddByte(ref.TagState, 1)
		t.AddByte(ref.TagMethod, 4)
		t.Add(ref.TagIdentifier, []byte(w.legit.Name))
		return tlvReq("/pairings", t), nil
	}
	return nil, fmt.Errorf("unknown op %q", op)
}

// probe: which mode is the server in for this connection, and did EVENTs reach it?
func (w *accWorld) probe(cs *accConn) J {
	out := J{"ev": "probe", "c": cs.name}
	if cs.closed {
		out["mode"], out["events"], out["http"], out["class"], out["discloses"] = "closed", 0, -1, "Closed", false
		return out
	}
	var r reply
	if cs.sess != nil && !cs.dead {
		r = cs.exchange(ref.BuildRequest("GET", fmt.Sprintf("/characteristics?id=1.%d", w.sw.Info.SerialNumber.ID), "", nil), true)
	} else {
		r = cs.exchange(ref.BuildRequest("GET", "/accessories", "", nil), false)
	}
	mode := "plain"
	switch {
	case r.class == "Closed":
		mode = "closed"
	case r.class == "Timeout":
		mode = "timeout"
	case r.enc:
		mode = "enc"
	}
	if r.class == "BadRequest" {
		r.class = "Refused" // the probe itself: a frame sent to a plaintext server
	}
	out["mode"], out["events"], out["http"], out["class"], out["discloses"] = mode, r.events, r.http, r.class, r.discloses
	return out
}

func (w *accWorld) runWord(b Beh, tr *Tracer) error {
	w.rng = rngFor(w.seed, 1000000+b.ID) // every random choice of a case depends on (seed, case id) only
	if err := w.baseline(); err != nil {
		return err
	}
	conns := map[string]*accConn{}
	defer func() {
		for _, cs := range conns {
			cs.c.Close()
		}
		// wait until the server has dropped the sessions, so that the next word starts from a quiet server
		for _, cs := range conns {
			for i := 0; i < 300; i++ {
				if sessionOf(w.tr.Ctx, cs.local) == nil {
					break
				}
				time.Sleep(time.Millisecond)
			}
		}
	}()
	lines := []J{{"ev": "reset", "case": b.ID, "val": w.val(), "cb": 0, "subs": []string{}, "store": w.storeNames()}}
	for i, raw := range b.Steps {
		var st accStep
		if err := json.Unmarshal(raw, &st); err != nil {
			return err
		}
		o, err := w.doStep(conns, st)
		if err != nil {
			return fmt.Errorf("case %d step %d: %v", b.ID, i, err)
		}
		o["ev"], o["case"], o["i"] = "step", b.ID, i
		o["val"], o["cb"], o["subs"], o["store"] = w.val(), int(atomic.LoadInt64(&w.cb)), w.subs(conns), w.storeNames()
		lines = append(lines, o)
	}
	// final phase: the application changes the value, then every connection is probed (the probe is the fence)
	w.setOn(!w.sw.Switch.On.GetValue())
	names := make([]string, 0, len(conns))
	for n := range conns {
		names = append(names, n)
	}
	sort.Strings(names)
	for _, n := range names {
		p := w.probe(conns[n])
		p["case"], p["i"] = b.ID, len(b.Steps)-1
		p["val"], p["cb"], p["subs"], p["store"] = w.val(), int(atomic.LoadInt64(&w.cb)), w.subs(conns), w.storeNames()
		lines = append(lines, p)
	}
	tr.Block(lines)
	return nil
}

func accessFamily(a *Args) error {
	behs, err := readBehs(a.Beh)
	if err != nil {
		return err
	}
	tr, err := newTracer(a.Trace)
	if err != nil {
		return err
	}
	workers := 24 // most of a word's time is spent in dnssd's one-second re-announcement after a pairing change
	if len(behs) < workers {
		workers = 1
	}
	worlds := make([]*accWorld, workers)
	for k := range worlds {
		w, err := newAccWorld(a.Seed, k)
		if err != nil {
			return err
		}
		worlds[k] = w
		defer w.close()
	}
	var mu sync.Mutex
	var firstErr error
	var wg sync.WaitGroup
	for k := 0; k < workers; k++ {
		wg.Add(1)
		go func(k int) {
			defer wg.Done()
			for i := k; i < len(behs); i += workers {
				if err := worlds[k].runWord(behs[i], tr); err != nil {
					mu.Lock()
					if firstErr == nil {
						firstErr = err
					}
					mu.Unlock()
					return
				}
			}
		}(k)
	}
	wg.Wait()
	if firstErr != nil {
		return firstErr
	}
	n, sample := stdPanics.Take()
	_ = sample
	fmt.Printf("access: %d behaviours replayed, %d trace lines, %d handler panics logged, %d application-side panics\n", len(behs), tr.n, n, atomic.LoadInt64(&appPanics))
	return tr.Close()
}
