package main

// Family "ids": construction words from Ids.tla executed with real accessories, services and characteristics; every
// accessory constructor of the library takes the place of the abstract accessories in turn; built twice (restart) (C14).

import (
	"encoding/json"
	"fmt"
	"sync"

	"github.com/brutella/hc/accessory"
	"github.com/brutella/hc/characteristic"
	"github.com/brutella/hc/service"
)

func init() { families["ids"] = idsFamily }

type idStep struct {
	Op       string `json:"op"` // "add" (default) | "remove" (the explicit-th accessory of the container) | "removerefused" | "latechar"
	Explicit int    `json:"explicit"`
	Shape    []int  `json:"shape"`
}

func accessoryBase(obj interface{}) *accessory.Accessory {
	if a, ok := obj.(*accessory.Accessory); ok {
		return a
	}
	if c := reflectField(obj, "Accessory"); c != nil {
		if a, ok := c.(*accessory.Accessory); ok {
			return a
		}
	}
	return nil
}

// buildWord builds the container of a construction word. variant selects which library constructor stands in for the
// abstract accessories (-1: plain accessory.New).
func buildWord(steps []idStep, variant int) (c *accessory.Container, accepted []*accessory.Accessory, autorej int, panicked bool) {
	defer func() {
		if r := recover(); r != nil {
			panicked = true
		}
	}()
	c = accessory.NewContainer()
	var refused *accessory.Accessory
	for k, s := range steps {
		switch s.Op {
		case "remove":
			// the application removes the s.Explicit-th accessory of the container
			if s.Explicit >= 1 && s.Explicit <= len(accepted) {
				c.RemoveAccessory(accepted[s.Explicit-1])
				accepted = append(accepted[:s.Explicit-1:s.Explicit-1], accepted[s.Explicit:]...)
			}
			continue
		case "latechar":
			// a characteristic is added to the last service of an accessory that is in the container already
			if s.Explicit >= 1 && s.Explicit <= len(accepted) {
				a := accepted[s.Explicit-1]
				ch := characteristic.NewInt(fmt.Sprintf("D%02X", k))
				ch.Format = characteristic.FormatUInt8
				ch.Perms = characteristic.PermsAll()
				ch.SetValue(k)
				a.Services[len(a.Services)-1].AddCharacteristic(ch.Characteristic)
			}
			continue
		case "removerefused":
			// ... or tidies up after an add that was refused: that accessory is no member
			if refused != nil {
				c.RemoveAccessory(refused)
			}
			continue
		}
		var a *accessory.Accessory
		info := accessory.Info{Name: fmt.Sprintf("Acc%d", k), ID: uint64(s.Explicit)}
		if variant >= 0 && len(catAccs) > 0 {
			// library constructors take an Info: rebuild the call with the explicit id
			a = makeCatalogAccessory(catAccs[(variant+k)%len(catAccs)].name, info)
		}
		if a == nil {
			a = accessory.New(info, accessory.TypeOther)
		}
		for si, n := range s.Shape {
			svc := service.New(fmt.Sprintf("F%02X", si))
			svc.Hidden = si%3 == 1
			svc.Primary = si == 0
			for ci := 0; ci < n; ci++ {
				ch := characteristic.NewInt(fmt.Sprintf("E%02X", ci))
				ch.Format = characteristic.FormatUInt8
				ch.Perms = characteristic.PermsAll()
				ch.SetValue(ci)
				svc.AddCharacteristic(ch.Characteristic)
			}
			if si > 0 && len(a.Services) > 1 {
				svc.AddLinkedService(a.Services[len(a.Services)-1])
			}
			a.AddService(svc)
		}
		if err := c.AddAccessory(a); err == nil {
			accepted = append(accepted, a)
		} else if s.Explicit == 0 {
			autorej++ // an accessory with an automatic id was refused
		} else {
			refused = a
		}
	}
	return c, accepted, autorej, false
}

func idsOf(accepted []*accessory.Accessory) ([]int, [][]int) {
	aids := []int{}
	iids := [][]int{}
	for _, a := range accepted {
		aids = append(aids, int(a.ID))
		l := []int{}
		for _, s := range a.Services {
			l = append(l, int(s.ID))
			for _, c := range s.Characteristics {
				l = append(l, int(c.ID))
			}
		}
		iids = append(iids, l)
	}
	return aids, iids
}

func runIdsWord(b Beh, variant int) J {
	var steps []idStep
	for _, raw := range b.Steps {
		var s idStep
		if json.Unmarshal(raw, &s) == nil {
			steps = append(steps, s)
		}
	}
	c, acc, autorej, p1 := buildWord(steps, variant)
	_, acc2, _, p2 := buildWord(steps, variant)
	aids, iids := idsOf(acc)
	aids2, iids2 := idsOf(acc2)
	o := J{"ev": "build", "case": b.ID, "i": len(steps) - 1, "variant": variant, "aids": aids, "iids": iids, "aids2": aids2, "iids2": iids2,
		"iids3": iids, "late": []int{1}, "autorej": autorej, "panic": p1 || p2, "jsonok": false, "jaids": []int{}, "jiids": [][]int{}, "chars": []J{}, "svcsok": true}
	if c == nil {
		return o
	}
	// the attribute database as served to controllers
	raw, err := json.Marshal(c)
	if err != nil {
		return o
	}
	var doc struct {
		Accessories []map[string]json.RawMessage `json:"accessories"`
	}
	if json.Unmarshal(raw, &doc) != nil {
		return o
	}
	o["jsonok"] = true
	jaids := []int{}
	jiids := [][]int{}
	chars := []J{}
	svcsok := true
	num := func(r json.RawMessage) (int, bool) {
		var n uint64
		if r == nil || json.Unmarshal(r, &n) != nil {
			return 0, false
		}
		return int(n), true
	}
	for _, a := range doc.Accessories {
		aid, ok := num(a["aid"])
		if !ok {
			svcsok = false
		}
		jaids = append(jaids, aid)
		var svcs []map[string]json.RawMessage
		json.Unmarshal(a["services"], &svcs)
		l := []int{}
		for _, s := range svcs {
			sid, ok := num(s["iid"])
			var typ string
			if !ok || json.Unmarshal(s["type"], &typ) != nil || typ == "" {
				svcsok = false
			}
			l = append(l, sid)
			var cs []map[string]json.RawMessage
			json.Unmarshal(s["characteristics"], &cs)
			for _, ch := range cs {
				cid, hasiid := num(ch["iid"])
				l = append(l, cid)
				var typ, format string
				var perms []string
				ht := json.Unmarshal(ch["type"], &typ) == nil && typ != ""
				hf := json.Unmarshal(ch["format"], &format) == nil && format != ""
				json.Unmarshal(ch["perms"], &perms)
				if perms == nil {
					perms = []string{}
				}
				chars = append(chars, J{"hasiid": hasiid, "hastype": ht, "hasformat": hf, "perms": perms})
			}
		}
		jiids = append(jiids, l)
	}
	o["jaids"], o["jiids"], o["chars"], o["svcsok"] = jaids, jiids, chars, svcsok
	// the same accessory objects served again (a second container, as a transport that is created again does): same ids
	func() {
		defer func() {
			if r := recover(); r != nil {
				o["panic"] = true
			}
		}()
		c3 := accessory.NewContainer()
		for _, a := range acc {
			c3.AddAccessory(a)
		}
		_, o["iids3"] = idsOf(acc)
		// a service added to an accessory that is already served gets ids as well
		if len(acc) > 0 {
			sv := service.New("F00D")
			sv.AddCharacteristic(characteristic.NewBrightness().Characteristic)
			acc[0].AddService(sv)
			_, late := idsOf(acc[:1])
			o["late"] = late[0]
		}
	}()
	return o
}

func idsFamily(a *Args) error {
	behs, err := readBehs(a.Beh)
	if err != nil {
		return err
	}
	tr, err := newTracer(a.Trace)
	if err != nil {
		return err
	}
	var mu sync.Mutex
	n := 0
	parallel(len(behs), 16, func(i int) {
		// plain accessories for every word; library constructors rotate through the words
		lines := []J{runIdsWord(behs[i], -1)}
		if len(catAccs) > 0 && (a.Tier == "thorough" || i%7 == 0) {
			lines = append(lines, runIdsWord(behs[i], i))
		}
		tr.Block(lines)
		mu.Lock()
		n += len(lines)
		mu.Unlock()
	})
	// every library constructor alone and all of them in one container
	var all []J
	for k := range catAccs {
		all = append(all, runIdsWord(Beh{ID: 3000000 + k, Steps: []json.RawMessage{json.RawMessage(`{"explicit":0,"shape":[]}`)}}, k))
	}
	var big []json.RawMessage
	for range catAccs {
		big = append(big, json.RawMessage(`{"explicit":0,"shape":[2]}`))
	}
	for k := 0; k < 3; k++ {
		big = append(big, big...)
	}
	all = append(all, runIdsWord(Beh{ID: 3999999, Steps: big}, 0))
	tr.Block(all)
	fmt.Printf("ids: %d containers built twice from %d construction words (+%d library-constructor containers, one of %d accessories)\n", n, len(behs), len(catAccs), len(big))
	return tr.Close()
}
