package ref

import (
	"bufio"
	"bytes"
	"errors"
	"fmt"
	"io"
	"net"
	"strconv"
	"strings"
	"sync/atomic"
	"syscall"
	"time"
)

// Msg is one HTTP/1.1 response or EVENT/1.0 message.
type Msg struct {
	Proto  string
	Status int
	Header map[string]string // lower-case keys
	Body   []byte
	Enc    bool // arrived as secure-session frames
}

func (m *Msg) IsEvent() bool { return strings.HasPrefix(m.Proto, "EVENT/") }

// Conn is a controller connection: plaintext until Upgrade, framed ciphertext afterwards.
type Conn struct {
	C       net.Conn
	raw     *bufio.Reader // bytes as they arrive
	dec     *bufio.Reader // plaintext of the frames read from raw (nil until Upgrade)
	Sess    *Session      // write side: nil = plaintext
	decSess *Session      // the session dec is bound to
	Events  []*Msg
	Timeout time.Duration
}

func Dial(addr string) (*Conn, error) {
	c, err := net.DialTimeout("tcp", addr, 3*time.Second)
	if err != nil {
		return nil, err
	}
	return &Conn{C: c, raw: bufio.NewReader(c), Timeout: 4 * time.Second}, nil
}

// DialSmallWindow connects with a receive buffer of the given size set BEFORE the handshake, so that the advertised window is
// small from the start: a peer that does not read keeps the sender blocked after a few KB.
func DialSmallWindow(addr string, rcvbuf int) (*Conn, error) {
	d := net.Dialer{Timeout: 3 * time.Second, Control: func(network, address string, rc syscall.RawConn) error {
		var serr error
		if err := rc.Control(func(fd uintptr) { serr = syscall.SetsockoptInt(int(fd), syscall.SOL_SOCKET, syscall.SO_RCVBUF, rcvbuf) }); err != nil {
			return err
		}
		return serr
	}}
	c, err := d.Dial("tcp", addr)
	if err != nil {
		return nil, err
	}
	return &Conn{C: c, raw: bufio.NewReader(c), Timeout: 4 * time.Second}, nil
}

// DialReuse connects from the given local address ("ip:port", port 0 = any) with SO_REUSEADDR and SO_REUSEPORT set, so that a
// second connection can leave from the same local address and port towards another address of the server.
func DialReuse(addr, local string) (*Conn, error) {
	la, err := net.ResolveTCPAddr("tcp", local)
	if err != nil {
		return nil, err
	}
	d := net.Dialer{Timeout: 3 * time.Second, LocalAddr: la, Control: func(network, address string, rc syscall.RawConn) error {
		var serr error
		if err := rc.Control(func(fd uintptr) {
			serr = syscall.SetsockoptInt(int(fd), syscall.SOL_SOCKET, syscall.SO_REUSEADDR, 1)
			if serr == nil {
				serr = syscall.SetsockoptInt(int(fd), syscall.SOL_SOCKET, 0xf /* SO_REUSEPORT */, 1)
			}
		}); err != nil {
			return err
		}
		return serr
	}}
	c, err := d.Dial("tcp", addr)
	if err != nil {
		return nil, err
	}
	return &Conn{C: c, raw: bufio.NewReader(c), Timeout: 4 * time.Second}, nil
}

func (c *Conn) Close() { c.C.Close() }

// Upgrade switches both directions to the secure session derived from the pair-verify shared secret.
func (c *Conn) Upgrade(shared [32]byte) {
	c.Install(NewControllerSession(shared))
}

// Install binds both directions to an existing session object.
func (c *Conn) Install(s *Session) {
	c.Sess = s
	c.decSess = s
	c.dec = bufio.NewReader(&frameReader{s: s, r: c.raw})
}

// SessInstalled returns the session the read side is bound to (nil = none).
func (c *Conn) SessInstalled() *Session { return c.decSess }

// Downgrade returns to plaintext writing and reading.
func (c *Conn) Downgrade() {
	c.Sess = nil
	c.decSess = nil
	c.dec = nil
}

// reader picks the stream the next message starts in: after Upgrade the peer may still answer in plaintext
// (it never switched). A frame cannot start with "HT" or "EV" (length above 1024), so the choice is unambiguous.
func (c *Conn) reader() (*bufio.Reader, bool, error) {
	if c.dec == nil {
		return c.raw, false, nil
	}
	if c.dec.Buffered() > 0 {
		return c.dec, true, nil
	}
	p, err := c.raw.Peek(2)
	if err != nil {
		return nil, false, err
	}
	if (p[0] == 'H' && p[1] == 'T') || (p[0] == 'E' && p[1] == 'V') {
		return c.raw, false, nil
	}
	return c.dec, true, nil
}

// HeaderStyle chooses how the header names of BuildRequest are spelled (HTTP header names are case-insensitive):
// 0 as usual, 1 lower case, 2 upper case, -1 (default) by the request itself, so that every run mixes the three.
var HeaderStyle = -1

func BuildRequest(method, path, ctype string, body []byte) []byte {
	style := HeaderStyle
	if style < 0 {
		style = (len(path) + len(body)) % 3
	}
	name := func(n string) string {
		switch style {
		case 1:
			return strings.ToLower(n)
		case 2:
			return strings.ToUpper(n)
		}
		return n
	}
	var b bytes.Buffer
	fmt.Fprintf(&b, "%s %s HTTP/1.1\r\n%s: hc.local\r\n", method, path, name("Host"))
	if ctype != "" {
		fmt.Fprintf(&b, "%s: %s\r\n", name("Content-Type"), ctype)
	}
	if body != nil || method == "POST" || method == "PUT" {
		fmt.Fprintf(&b, "%s: %d\r\n", name("Content-Length"), len(body))
	}
	b.WriteString("\r\n")
	b.Write(body)
	return b.Bytes()
}

// WriteRaw sends bytes as they are (plaintext) or framed (after Upgrade).
func (c *Conn) WriteRaw(b []byte) error {
	c.C.SetWriteDeadline(time.Now().Add(c.Timeout))
	if c.Sess != nil {
		b = c.Sess.SealMessage(b)
	}
	_, err := c.C.Write(b)
	return err
}

// ReadMsg reads one message (response or event).
// Timeouts counts the reads that ran into their timeout. A server that does not answer any more makes every following
// read wait in vain: after twenty of them the remaining reads of the process wait for one second only (the verdict is
// there). Waits that are EXPECTED to end in a timeout (ReadMsgWithin) are not counted: on a loaded machine an answer may
// well take a few hundred milliseconds.
var Timeouts int64

func (c *Conn) ReadMsg() (m *Msg, err error) {
	to := c.Timeout
	if atomic.LoadInt64(&Timeouts) > 20 && to > time.Second {
		to = time.Second
	}
	defer func() {
		if ne, ok := err.(net.Error); ok && ne.Timeout() {
			atomic.AddInt64(&Timeouts, 1)
		}
	}()
	return c.readMsg(to)
}

// ReadMsgWithin waits for a message for d; running into the timeout is an expected outcome and not counted.
func (c *Conn) ReadMsgWithin(d time.Duration) (*Msg, error) { return c.readMsg(d) }

func (c *Conn) readMsg(timeout time.Duration) (*Msg, error) {
	c.C.SetReadDeadline(time.Now().Add(timeout))
	br, enc, err := c.reader()
	if err != nil {
		return nil, err
	}
	line, err := br.ReadString('\n')
	if err != nil {
		return nil, err
	}
	line = strings.TrimRight(line, "\r\n")
	parts := strings.SplitN(line, " ", 3)
	if len(parts) < 2 || !(strings.HasPrefix(parts[0], "HTTP/") || strings.HasPrefix(parts[0], "EVENT/")) {
		return nil, fmt.Errorf("malformed status line %q", line)
	}
	st, err := strconv.Atoi(parts[1])
	if err != nil {
		return nil, fmt.Errorf("malformed status line %q", line)
	}
	m := &Msg{Proto: parts[0], Status: st, Header: map[string]string{}, Enc: enc}
	for {
		h, err := br.ReadString('\n')
		if err != nil {
			return nil, err
		}
		h = strings.TrimRight(h, "\r\n")
		if h == "" {
			break
		}
		kv := strings.SplitN(h, ":", 2)
		if len(kv) != 2 {
			return nil, fmt.Errorf("malformed header %q", h)
		}
		m.Header[strings.ToLower(strings.TrimSpace(kv[0]))] = strings.TrimSpace(kv[1])
	}
	if st == 204 || st == 304 || (st >= 100 && st < 200) {
		return m, nil
	}
	if strings.EqualFold(m.Header["transfer-encoding"], "chunked") {
		for {
			sz, err := br.ReadString('\n')
			if err != nil {
				return nil, err
			}
			n, err := strconv.ParseInt(strings.TrimSpace(strings.SplitN(sz, ";", 2)[0]), 16, 32)
			if err != nil {
				return nil, fmt.Errorf("malformed chunk size %q", sz)
			}
			if n == 0 {
				// trailers until blank line
				for {
					t, err := br.ReadString('\n')
					if err != nil {
						return nil, err
					}
					if strings.TrimRight(t, "\r\n") == "" {
						break
					}
				}
				break
			}
			chunk := make([]byte, n+2)
			if _, err := io.ReadFull(br, chunk); err != nil {
				return nil, err
			}
			if chunk[n] != '\r' || chunk[n+1] != '\n' {
				return nil, errors.New("malformed chunk terminator")
			}
			m.Body = append(m.Body, chunk[:n]...)
		}
		return m, nil
	}
	if cl, ok := m.Header["content-length"]; ok {
		n, err := strconv.Atoi(cl)
		if err != nil || n < 0 {
			return nil, fmt.Errorf("malformed content-length %q", cl)
		}
		m.Body = make([]byte, n)
		if _, err := io.ReadFull(br, m.Body); err != nil {
			return nil, err
		}
		return m, nil
	}
	// no length: body runs to end of stream
	b, err := io.ReadAll(br)
	m.Body = b
	if err != nil {
		return m, err
	}
	return m, nil
}

// Do sends a request and returns the response; EVENT messages read on the way are appended to c.Events.
func (c *Conn) Do(method, path, ctype string, body []byte) (*Msg, error) {
	if err := c.WriteRaw(BuildRequest(method, path, ctype, body)); err != nil {
		return nil, err
	}
	for {
		m, err := c.ReadMsg()
		if err != nil {
			return nil, err
		}
		if m.IsEvent() {
			c.Events = append(c.Events, m)
			continue
		}
		return m, nil
	}
}

func (c *Conn) TakeEvents() []*Msg {
	e := c.Events
	c.Events = nil
	return e
}

const (
	CTTLV  = "application/pairing+tlv8"
	CTJSON = "application/hap+json"
)

func (c *Conn) PostTLV(path string, t TLV) (*Msg, TLV, error) {
	return c.PostRawTLV(path, t.Encode())
}

func (c *Conn) PostRawTLV(path string, body []byte) (*Msg, TLV, error) {
	m, err := c.Do("POST", path, CTTLV, body)
	if err != nil {
		return nil, nil, err
	}
	t, _ := Decode(m.Body)
	return m, t, nil
}
