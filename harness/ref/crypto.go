// Package ref is a HomeKit controller written from the HAP specification. It shares no code with
// brutella/hc: SRP-6a over math/big, HKDF over crypto/hmac, the IETF ChaCha20-Poly1305 AEAD from
// x/crypto (used directly, not through hc's wrapper), its own TLV8 codec, framing and HTTP reader.
package ref

import (
	"crypto/ed25519"
	"crypto/hmac"
	"crypto/rand"
	"crypto/sha512"
	"encoding/binary"
	"errors"
	"math/big"

	"golang.org/x/crypto/chacha20poly1305"
	"golang.org/x/crypto/curve25519"
)

// HKDF-SHA-512 (RFC 5869), first 32 bytes of output.
func HKDF(secret, salt, info []byte) [32]byte {
	ext := hmac.New(sha512.New, salt)
	ext.Write(secret)
	prk := ext.Sum(nil)
	exp := hmac.New(sha512.New, prk)
	exp.Write(info)
	exp.Write([]byte{1})
	t := exp.Sum(nil)
	var out [32]byte
	copy(out[:], t[:32])
	return out
}

func nonce12(n8 []byte) []byte {
	n := make([]byte, 12)
	copy(n[4:], n8)
	return n
}

// Seal returns ciphertext||tag under ChaCha20-Poly1305 with the 8-byte nonce left-padded with 4 zero bytes.
func Seal(key []byte, nonce8 []byte, plain, aad []byte) []byte {
	a, err := chacha20poly1305.New(key)
	if err != nil {
		panic(err)
	}
	return a.Seal(nil, nonce12(nonce8), plain, aad)
}

// Open is the inverse of Seal.
func Open(key []byte, nonce8 []byte, box, aad []byte) ([]byte, error) {
	if len(box) < 16 {
		return nil, errors.New("box shorter than a tag")
	}
	a, err := chacha20poly1305.New(key)
	if err != nil {
		return nil, err
	}
	return a.Open(nil, nonce12(nonce8), box, aad)
}

func CounterNonce(ctr uint64) []byte {
	var n [8]byte
	binary.LittleEndian.PutUint64(n[:], ctr)
	return n[:]
}

// ---- X25519 / Ed25519

type X25519Key struct{ Priv, Pub [32]byte }

func NewX25519(rnd func([]byte)) X25519Key {
	var k X25519Key
	rnd(k.Priv[:])
	pub, err := curve25519.X25519(k.Priv[:], curve25519.Basepoint)
	if err != nil {
		panic(err)
	}
	copy(k.Pub[:], pub)
	return k
}

func (k X25519Key) Shared(other []byte) [32]byte {
	var out [32]byte
	s, err := curve25519.X25519(k.Priv[:], other)
	if err == nil {
		copy(out[:], s)
	}
	return out
}

type Identity struct {
	Name string
	Pub  ed25519.PublicKey
	Priv ed25519.PrivateKey
}

func NewIdentity(name string, rnd func([]byte)) Identity {
	seed := make([]byte, 32)
	rnd(seed)
	priv := ed25519.NewKeyFromSeed(seed)
	return Identity{Name: name, Priv: priv, Pub: priv.Public().(ed25519.PublicKey)}
}

func CryptoRand(b []byte) { rand.Read(b) }

// ---- SRP-6a client (RFC 5054 3072-bit group, SHA-512), as profiled by HAP:
//   x = H(s | H(I ":" P)), k = H(N | PAD(g)), u = H(PAD(A) | PAD(B)),
//   S = (B - k g^x)^(a + u x), K = H(S),
//   M1 = H(H(N) xor H(g) | H(I) | s | A | B | K), M2 = H(A | M1 | K)

var srpN, _ = new(big.Int).SetString(N3072Hex, 16)
var srpG = big.NewInt(5)

func h512(parts ...[]byte) []byte {
	h := sha512.New()
	for _, p := range parts {
		h.Write(p)
	}
	return h.Sum(nil)
}

func pad384(n *big.Int) []byte {
	b := n.Bytes()
	if len(b) >= 384 {
		return b
	}
	out := make([]byte, 384)
	copy(out[384-len(b):], b)
	return out
}

type SRPClient struct {
	I, P []byte
	a, A *big.Int
	K    []byte // session key H(S)
	S    []byte // premaster secret (minimal big-endian)
	M1   []byte
	Abytes,
	Bbytes []byte
}

// NewSRPClient draws a until A has no leading zero byte (see DESIGN C04: padding ambiguity).
func NewSRPClient(user, pin string, rnd func([]byte)) *SRPClient {
	c := &SRPClient{I: []byte(user), P: []byte(pin)}
	for {
		ab := make([]byte, 32)
		rnd(ab)
		c.a = new(big.Int).SetBytes(ab)
		c.A = new(big.Int).Exp(srpG, c.a, srpN)
		if len(c.A.Bytes()) == 384 {
			break
		}
	}
	c.Abytes = c.A.Bytes()
	return c
}

var ErrRedraw = errors.New("srp: leading zero byte in S, redraw")

// ErrRedrawB: the accessory's B has a leading zero byte; B is fixed per connection, so only a new connection helps.
var ErrRedrawB = errors.New("srp: leading zero byte in B, redraw on a new connection")

// Compute derives S, K and M1 from the accessory's salt and B. ErrRedraw asks for a fresh exchange.
func (c *SRPClient) Compute(salt, B []byte) error {
	Bn := new(big.Int).SetBytes(B)
	if new(big.Int).Mod(Bn, srpN).Sign() == 0 {
		return errors.New("srp: B mod N = 0")
	}
	if len(B) != 384 || B[0] == 0 {
		return ErrRedrawB
	}
	c.Bbytes = B
	k := new(big.Int).SetBytes(h512(srpN.Bytes(), pad384(srpG)))
	u := new(big.Int).SetBytes(h512(pad384(c.A), pad384(Bn)))
	if u.Sign() == 0 {
		return errors.New("srp: u = 0")
	}
	x := new(big.Int).SetBytes(h512(salt, h512(c.I, []byte(":"), c.P)))
	gx := new(big.Int).Exp(srpG, x, srpN)
	base := new(big.Int).Mul(k, gx)
	base.Sub(Bn, base)
	base.Mod(base, srpN)
	e := new(big.Int).Mul(u, x)
	e.Add(e, c.a)
	S := new(big.Int).Exp(base, e, srpN)
	c.S = S.Bytes()
	if len(c.S) != 384 {
		return ErrRedraw
	}
	c.K = h512(c.S)
	hn := h512(srpN.Bytes())
	hg := h512(srpG.Bytes())
	x64 := make([]byte, 64)
	for i := range x64 {
		x64[i] = hn[i] ^ hg[i]
	}
	c.M1 = h512(x64, h512(c.I), salt, c.Abytes, B, c.K)
	return nil
}

// NilKeyM1 is the client proof anybody can compute for an SRP server session whose key was never set (K = empty):
// H(H(N) xor H(g), H(I), s, A, B, "") with A, B and the xor as minimal big-endian integers.
func NilKeyM1(user string, salt, A, B []byte) []byte {
	hn := new(big.Int).SetBytes(h512(srpN.Bytes()))
	hg := new(big.Int).SetBytes(h512(srpG.Bytes()))
	x := new(big.Int).Xor(hn, hg)
	return h512(x.Bytes(), h512([]byte(user)), salt, new(big.Int).SetBytes(A).Bytes(), new(big.Int).SetBytes(B).Bytes(), nil)
}

func (c *SRPClient) VerifyM2(m2 []byte) bool {
	return hmac.Equal(m2, h512(c.Abytes, c.M1, c.K))
}
