package ref

import "errors"

// TLV8 as in the HAP specification: items of (type, length<=255, value); a value longer than 255 bytes
// is split into consecutive fragments, every fragment but the last 255 bytes long.

const (
	TagMethod     = 0x00
	TagIdentifier = 0x01
	TagSalt       = 0x02
	TagPublicKey  = 0x03
	TagProof      = 0x04
	TagEncrypted  = 0x05
	TagState      = 0x06
	TagError      = 0x07
	TagSignature  = 0x0A
	TagPermission = 0x0B
)

type Item struct {
	Tag byte
	Val []byte
}

type TLV []Item

func (t *TLV) Add(tag byte, val []byte) { *t = append(*t, Item{tag, val}) }
func (t *TLV) AddByte(tag byte, b byte) { t.Add(tag, []byte{b}) }

// Encode fragments values longer than 255 bytes.
func (t TLV) Encode() []byte {
	var out []byte
	for _, it := range t {
		v := it.Val
		if len(v) == 0 {
			out = append(out, it.Tag, 0)
			continue
		}
		for len(v) > 0 {
			n := len(v)
			if n > 255 {
				n = 255
			}
			out = append(out, it.Tag, byte(n))
			out = append(out, v[:n]...)
			v = v[n:]
		}
	}
	return out
}

// RawItems parses without merging fragments. Error on truncation.
func RawItems(b []byte) ([]Item, error) {
	var items []Item
	for i := 0; i < len(b); {
		if i+2 > len(b) {
			return nil, errors.New("tlv: truncated header")
		}
		n := int(b[i+1])
		if i+2+n > len(b) {
			return nil, errors.New("tlv: truncated value")
		}
		items = append(items, Item{b[i], append([]byte(nil), b[i+2:i+2+n]...)})
		i += 2 + n
	}
	return items, nil
}

// Decode parses and merges fragments: an item of length 255 followed by an item of the same type continues.
func Decode(b []byte) (TLV, error) {
	raw, err := RawItems(b)
	if err != nil {
		return nil, err
	}
	var out TLV
	cont := false
	for _, it := range raw {
		if cont && len(out) > 0 && out[len(out)-1].Tag == it.Tag {
			out[len(out)-1].Val = append(out[len(out)-1].Val, it.Val...)
		} else {
			out = append(out, Item{it.Tag, it.Val})
		}
		cont = len(it.Val) == 255
	}
	return out, nil
}

// Get returns the first item with the tag.
func (t TLV) Get(tag byte) ([]byte, bool) {
	for _, it := range t {
		if it.Tag == tag {
			return it.Val, true
		}
	}
	return nil, false
}

func (t TLV) Count(tag byte) int {
	n := 0
	for _, it := range t {
		if it.Tag == tag {
			n++
		}
	}
	return n
}

func (t TLV) Byte(tag byte) int {
	v, ok := t.Get(tag)
	if !ok || len(v) != 1 {
		return -1
	}
	return int(v[0])
}

func (t TLV) Tags() []int {
	var out []int
	for _, it := range t {
		out = append(out, int(it.Tag))
	}
	return out
}
