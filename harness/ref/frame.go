package ref

import (
	"encoding/binary"
	"errors"
	"io"
)

// Session is the controller side of a HAP secure session: the controller writes under
// Control-Write-Encryption-Key and reads under Control-Read-Encryption-Key, each direction with its own
// 64-bit little-endian frame counter starting at zero; a frame is len(2, LE) | ciphertext | tag(16) with the
// two length bytes as associated data and at most 1024 bytes of plaintext.
type Session struct {
	WriteKey, ReadKey [32]byte
	WriteCtr, ReadCtr uint64
}

const FrameMax = 1024

func NewControllerSession(shared [32]byte) *Session {
	return &Session{
		WriteKey: HKDF(shared[:], []byte("Control-Salt"), []byte("Control-Write-Encryption-Key")),
		ReadKey:  HKDF(shared[:], []byte("Control-Salt"), []byte("Control-Read-Encryption-Key")),
	}
}

// NewAccessorySession is the accessory's view (keys swapped); used to produce reference ciphertext.
func NewAccessorySession(shared [32]byte) *Session {
	s := NewControllerSession(shared)
	s.WriteKey, s.ReadKey = s.ReadKey, s.WriteKey
	return s
}

func SealFrame(key []byte, ctr uint64, plain []byte) []byte {
	var l [2]byte
	binary.LittleEndian.PutUint16(l[:], uint16(len(plain)))
	out := append([]byte{}, l[:]...)
	return append(out, Seal(key, CounterNonce(ctr), plain, l[:])...)
}

// SealMessage frames one message and advances the write counter.
func (s *Session) SealMessage(plain []byte) []byte {
	var out []byte
	for len(plain) > 0 {
		n := len(plain)
		if n > FrameMax {
			n = FrameMax
		}
		out = append(out, SealFrame(s.WriteKey[:], s.WriteCtr, plain[:n])...)
		s.WriteCtr++
		plain = plain[n:]
	}
	return out
}

// FrameLens returns the plaintext length of each frame of a payload of n bytes.
func FrameLens(n int) []int {
	var out []int
	for n > 0 {
		k := n
		if k > FrameMax {
			k = FrameMax
		}
		out = append(out, k)
		n -= k
	}
	return out
}

// OpenFrame reads exactly one frame from r and opens it with the read counter.
func (s *Session) OpenFrame(r io.Reader) ([]byte, error) {
	var l [2]byte
	if _, err := io.ReadFull(r, l[:]); err != nil {
		return nil, err
	}
	n := int(binary.LittleEndian.Uint16(l[:]))
	if n > FrameMax {
		return nil, errors.New("frame: length above 1024")
	}
	box := make([]byte, n+16)
	if _, err := io.ReadFull(r, box); err != nil {
		if err == io.EOF {
			err = io.ErrUnexpectedEOF
		}
		return nil, err
	}
	p, err := Open(s.ReadKey[:], CounterNonce(s.ReadCtr), box, l[:])
	if err != nil {
		return nil, err
	}
	s.ReadCtr++
	return p, nil
}

// OpenAll opens a whole byte string of frames; returns plaintext per frame, and an error for the first bad frame.
func (s *Session) OpenAll(b []byte) ([][]byte, error) {
	var out [][]byte
	r := &sliceReader{b: b}
	for r.i < len(r.b) {
		p, err := s.OpenFrame(r)
		if err != nil {
			return out, err
		}
		out = append(out, p)
	}
	return out, nil
}

type sliceReader struct {
	b []byte
	i int
}

func (r *sliceReader) Read(p []byte) (int, error) {
	if r.i >= len(r.b) {
		return 0, io.EOF
	}
	n := copy(p, r.b[r.i:])
	r.i += n
	return n, nil
}

// frameReader turns a stream of frames into a plaintext stream.
type frameReader struct {
	s   *Session
	r   io.Reader
	buf []byte
}

func (f *frameReader) Read(p []byte) (int, error) {
	for len(f.buf) == 0 {
		b, err := f.s.OpenFrame(f.r)
		if err != nil {
			return 0, err
		}
		f.buf = b
	}
	n := copy(p, f.buf)
	f.buf = f.buf[n:]
	return n, nil
}
