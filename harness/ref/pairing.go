package ref

import (
	"crypto/ed25519"
	"errors"
	"fmt"
)

// ---- Pair-setup (HAP R2 5.6), controller side.

type SetupClient struct {
	Pin string // "XXX-XX-XXX"
	ID  Identity
	Rnd func([]byte)

	SRP    *SRPClient
	EncKey [32]byte // HKDF(K, "Pair-Setup-Encrypt-Salt", "Pair-Setup-Encrypt-Info"), valid after M4
	HaveK  bool

	AccessoryID   string
	AccessoryLTPK []byte
}

func FormatPin(p string) string {
	if len(p) == 8 {
		return p[:3] + "-" + p[3:5] + "-" + p[5:]
	}
	return p
}

func (s *SetupClient) M1() TLV {
	var t TLV
	t.AddByte(TagState, 1)
	t.AddByte(TagMethod, 0)
	return t
}

// HandleM2 consumes salt and B. ErrRedraw means: start over on a fresh connection.
func (s *SetupClient) HandleM2(t TLV) error {
	if t.Byte(TagState) != 2 {
		return fmt.Errorf("M2: state %d", t.Byte(TagState))
	}
	if _, bad := t.Get(TagError); bad {
		return fmt.Errorf("M2: error %d", t.Byte(TagError))
	}
	salt, ok1 := t.Get(TagSalt)
	B, ok2 := t.Get(TagPublicKey)
	if !ok1 || !ok2 || len(salt) != 16 {
		return errors.New("M2: salt (16 bytes) or public key missing")
	}
	s.SRP = NewSRPClient("Pair-Setup", s.Pin, s.Rnd)
	return s.SRP.Compute(salt, B)
}

func (s *SetupClient) M3() TLV {
	var t TLV
	t.AddByte(TagState, 3)
	t.Add(TagPublicKey, s.SRP.Abytes)
	t.Add(TagProof, s.SRP.M1)
	return t
}

// HandleM4 verifies the accessory's proof.
func (s *SetupClient) HandleM4(t TLV) error {
	if t.Byte(TagState) != 4 {
		return fmt.Errorf("M4: state %d", t.Byte(TagState))
	}
	if _, bad := t.Get(TagError); bad {
		return fmt.Errorf("M4: error %d", t.Byte(TagError))
	}
	m2, ok := t.Get(TagProof)
	if !ok || !s.SRP.VerifyM2(m2) {
		return errors.New("M4: accessory proof does not verify")
	}
	s.EncKey = HKDF(s.SRP.K, []byte("Pair-Setup-Encrypt-Salt"), []byte("Pair-Setup-Encrypt-Info"))
	s.HaveK = true
	return nil
}

// SubTLV5 builds the signed inner TLV of M5 for an identity, with the signing secret given
// (the SRP session key for an honest controller).
func SubTLV5(secret []byte, id Identity) TLV {
	x := HKDF(secret, []byte("Pair-Setup-Controller-Sign-Salt"), []byte("Pair-Setup-Controller-Sign-Info"))
	material := append(append(append([]byte{}, x[:]...), []byte(id.Name)...), id.Pub...)
	sig := ed25519.Sign(id.Priv, material)
	var t TLV
	t.Add(TagIdentifier, []byte(id.Name))
	t.Add(TagPublicKey, id.Pub)
	t.Add(TagSignature, sig)
	return t
}

func WrapM5(key []byte, inner []byte) TLV {
	var t TLV
	t.AddByte(TagState, 5)
	t.Add(TagEncrypted, Seal(key, []byte("PS-Msg05"), inner, nil))
	return t
}

func (s *SetupClient) M5() TLV {
	return WrapM5(s.EncKey[:], SubTLV5(s.SRP.K, s.ID).Encode())
}

// HandleM6 opens the accessory's box and verifies its signature.
func (s *SetupClient) HandleM6(t TLV) error {
	if t.Byte(TagState) != 6 {
		return fmt.Errorf("M6: state %d", t.Byte(TagState))
	}
	if _, bad := t.Get(TagError); bad {
		return fmt.Errorf("M6: error %d", t.Byte(TagError))
	}
	box, ok := t.Get(TagEncrypted)
	if !ok {
		return errors.New("M6: no encrypted data")
	}
	plain, err := Open(s.EncKey[:], []byte("PS-Msg06"), box, nil)
	if err != nil {
		return fmt.Errorf("M6: box does not open under PS-Msg06: %v", err)
	}
	in, err := Decode(plain)
	if err != nil {
		return err
	}
	id, _ := in.Get(TagIdentifier)
	ltpk, _ := in.Get(TagPublicKey)
	sig, _ := in.Get(TagSignature)
	if len(ltpk) != 32 || len(sig) != 64 {
		return errors.New("M6: ltpk/signature size")
	}
	x := HKDF(s.SRP.K, []byte("Pair-Setup-Accessory-Sign-Salt"), []byte("Pair-Setup-Accessory-Sign-Info"))
	material := append(append(append([]byte{}, x[:]...), id...), ltpk...)
	if !ed25519.Verify(ltpk, material, sig) {
		return errors.New("M6: accessory signature does not verify")
	}
	s.AccessoryID = string(id)
	s.AccessoryLTPK = ltpk
	return nil
}

// PairSetup runs the honest exchange on conn.
func (s *SetupClient) Run(c *Conn) error {
	_, t, err := c.PostTLV("/pair-setup", s.M1())
	if err != nil {
		return err
	}
	if err := s.HandleM2(t); err != nil {
		return err
	}
	_, t, err = c.PostTLV("/pair-setup", s.M3())
	if err != nil {
		return err
	}
	if err := s.HandleM4(t); err != nil {
		return err
	}
	_, t, err = c.PostTLV("/pair-setup", s.M5())
	if err != nil {
		return err
	}
	return s.HandleM6(t)
}

// ---- Pair-verify (HAP R2 5.7), controller side.

type VerifyClient struct {
	ID  Identity
	Rnd func([]byte)

	Eph    X25519Key
	AccPub []byte
	Shared [32]byte
	EncKey [32]byte // HKDF(shared, "Pair-Verify-Encrypt-Salt", "Pair-Verify-Encrypt-Info")

	AccessoryID  string
	AccessorySig []byte
}

func (v *VerifyClient) V1() TLV {
	v.Eph = NewX25519(v.Rnd)
	var t TLV
	t.AddByte(TagState, 1)
	t.Add(TagPublicKey, v.Eph.Pub[:])
	return t
}

// HandleV2 derives the keys and opens the accessory's box; accLTPK (may be nil) is checked when given.
func (v *VerifyClient) HandleV2(t TLV, accLTPK []byte) error {
	if t.Byte(TagState) != 2 {
		return fmt.Errorf("V2: state %d", t.Byte(TagState))
	}
	if _, bad := t.Get(TagError); bad {
		return fmt.Errorf("V2: error %d", t.Byte(TagError))
	}
	pub, ok := t.Get(TagPublicKey)
	if !ok || len(pub) != 32 {
		return errors.New("V2: public key missing")
	}
	v.AccPub = pub
	v.Shared = v.Eph.Shared(pub)
	v.EncKey = HKDF(v.Shared[:], []byte("Pair-Verify-Encrypt-Salt"), []byte("Pair-Verify-Encrypt-Info"))
	box, ok := t.Get(TagEncrypted)
	if !ok {
		return errors.New("V2: no encrypted data")
	}
	plain, err := Open(v.EncKey[:], []byte("PV-Msg02"), box, nil)
	if err != nil {
		return fmt.Errorf("V2: box does not open under PV-Msg02: %v", err)
	}
	in, err := Decode(plain)
	if err != nil {
		return err
	}
	id, _ := in.Get(TagIdentifier)
	sig, _ := in.Get(TagSignature)
	v.AccessoryID = string(id)
	v.AccessorySig = sig
	if accLTPK != nil {
		material := append(append(append([]byte{}, pub...), id...), v.Eph.Pub[:]...)
		if len(sig) != 64 || !ed25519.Verify(accLTPK, material, sig) {
			return errors.New("V2: accessory signature does not verify")
		}
	}
	return nil
}

// SubTLV3 is the signed inner TLV of V3.
func SubTLV3(id Identity, ctrlPub, accPub []byte) TLV {
	material := append(append(append([]byte{}, ctrlPub...), []byte(id.Name)...), accPub...)
	var t TLV
	t.Add(TagIdentifier, []byte(id.Name))
	t.Add(TagSignature, ed25519.Sign(id.Priv, material))
	return t
}

func WrapV3(key []byte, inner []byte) TLV {
	var t TLV
	t.AddByte(TagState, 3)
	t.Add(TagEncrypted, Seal(key, []byte("PV-Msg03"), inner, nil))
	return t
}

func (v *VerifyClient) V3() TLV {
	return WrapV3(v.EncKey[:], SubTLV3(v.ID, v.Eph.Pub[:], v.AccPub).Encode())
}

func HandleV4(t TLV) error {
	if t.Byte(TagState) != 4 {
		return fmt.Errorf("V4: state %d", t.Byte(TagState))
	}
	if _, bad := t.Get(TagError); bad {
		return fmt.Errorf("V4: error %d", t.Byte(TagError))
	}
	return nil
}

// Run performs pair-verify and upgrades the connection.
func (v *VerifyClient) Run(c *Conn, accLTPK []byte) error {
	_, t, err := c.PostTLV("/pair-verify", v.V1())
	if err != nil {
		return err
	}
	if err := v.HandleV2(t, accLTPK); err != nil {
		return err
	}
	m, t, err := c.PostTLV("/pair-verify", v.V3())
	if err != nil {
		return err
	}
	if m.Status != 200 {
		return fmt.Errorf("V4: http %d", m.Status)
	}
	if err := HandleV4(t); err != nil {
		return err
	}
	c.Upgrade(v.Shared)
	return nil
}
